// vcheck <Cxx> [--tier quick|thorough] [--replay file]
package main

import (
	"flag"
	"fmt"
	"os"
	"runtime/debug"
	"runtime/pprof"

	"verif/internal/instr"
	"verif/internal/props"
)

func main() {
	if len(os.Args) < 2 {
		fmt.Fprintln(os.Stderr, "usage: vcheck <Cxx> [--tier quick|thorough] [--replay file]")
		os.Exit(2)
	}
	debug.SetGCPercent(400)
	_ = instr.Available
	prop := os.Args[1]
	fs := flag.NewFlagSet("vcheck", flag.ExitOnError)
	tier := fs.String("tier", "quick", "quick or thorough")
	replay := fs.String("replay", "", "replay file")
	_ = fs.Parse(os.Args[2:])
	if t := os.Getenv("VERIF_TIER"); t != "" && *tier == "" {
		*tier = t
	}
	if *replay != "" {
		os.Exit(props.Replay(prop, *replay))
	}
	if pf := os.Getenv("VERIF_CPUPROFILE"); pf != "" {
		fh, err := os.Create(pf)
		if err == nil {
			_ = pprof.StartCPUProfile(fh)
			defer pprof.StopCPUProfile()
		}
	}
	f, ok := props.Registry[prop]
	if !ok {
		fmt.Fprintf(os.Stderr, "unknown property %q\n", prop)
		os.Exit(2)
	}
	code := f(*tier)
	pprof.StopCPUProfile()
	os.Exit(code)
}
