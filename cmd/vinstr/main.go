// vinstr instruments the hcl-lang packages for the `instr` build variant without touching
// /repo: it writes rewritten copies of every non-test source file plus an overlay.json.
//
//	vinstr -repo /repo -out /verif/build/overlay
//
// Rewrites (type-driven, so new code is picked up automatically):
//  1. `for k, v := range <map>`  ->  iteration over vrt.MapKeys(m, site) (map-order seam)
//  2. vrt.Yield(site) at the entry of every function and method
//  3. write probes (which are also yield points) before every statement that writes through
//     existing structure: a[i]=v, p.f=v, *p=v, m[k]=v, delete, x=append(s,..), copy, sort.*
//  4. per package zz_verif_export.go exposing package-level variables and a few internals
package main

import (
	"bytes"
	"encoding/json"
	"flag"
	"fmt"
	"go/ast"
	"go/printer"
	"go/token"
	"go/types"
	"os"
	"path/filepath"
	"sort"
	"strings"

	"golang.org/x/tools/go/ast/astutil"
	"golang.org/x/tools/go/packages"
)

const vrtPath = "github.com/hashicorp/hcl-lang/vrt"

type stats struct {
	MapSites, Yields, Probes, Unprobed int
	SyncImported                       []string
	UnprobedSites                      []string
	Globals                            []string
	Files                              int
}

var (
	sites []string // site id -> "file:line kind in func"
	st    stats
	// funcRanges of the file being instrumented: [pos,end] -> name
	funcRanges []funcRange
)

type funcRange struct {
	pos, end token.Pos
	name     string
}

func enclosingFunc(pos token.Pos) string {
	for _, fr := range funcRanges {
		if pos >= fr.pos && pos <= fr.end {
			return fr.name
		}
	}
	return "?"
}

func site(fset *token.FileSet, pos token.Pos, kind string) *ast.BasicLit {
	p := fset.Position(pos)
	rel := p.Filename
	if i := strings.Index(rel, "/repo/"); i >= 0 {
		rel = rel[i+6:]
	}
	if strings.HasPrefix(kind, "func ") {
		sites = append(sites, fmt.Sprintf("%s:%d %s", rel, p.Line, kind))
	} else {
		sites = append(sites, fmt.Sprintf("%s:%d %s in %s", rel, p.Line, kind, enclosingFunc(pos)))
	}
	return &ast.BasicLit{Kind: token.INT, Value: fmt.Sprint(len(sites) - 1)}
}

func vrtCall(name string, args ...ast.Expr) *ast.ExprStmt {
	return &ast.ExprStmt{X: &ast.CallExpr{Fun: &ast.SelectorExpr{X: ast.NewIdent("vrt"), Sel: ast.NewIdent(name)}, Args: args}}
}

// pure tells whether re-evaluating e has no side effects and cannot change meaning.
func pure(e ast.Expr) bool {
	switch x := e.(type) {
	case *ast.Ident, *ast.BasicLit:
		return true
	case *ast.ParenExpr:
		return pure(x.X)
	case *ast.SelectorExpr:
		return pure(x.X)
	case *ast.StarExpr:
		return pure(x.X)
	case *ast.IndexExpr:
		return pure(x.X) && pure(x.Index)
	case *ast.BinaryExpr:
		return pure(x.X) && pure(x.Y)
	case *ast.UnaryExpr:
		return x.Op != token.ARROW && pure(x.X)
	case *ast.SliceExpr:
		return pure(x.X) && (x.Low == nil || pure(x.Low)) && (x.High == nil || pure(x.High)) && (x.Max == nil || pure(x.Max))
	}
	return false
}

type instr struct {
	fset *token.FileSet
	info *types.Info
	pkg  *types.Package
	used bool // file needs the vrt import
}

func (in *instr) isMap(e ast.Expr) bool {
	t := in.info.TypeOf(e)
	if t == nil {
		return false
	}
	_, ok := t.Underlying().(*types.Map)
	return ok
}

func (in *instr) isSliceLike(e ast.Expr) bool {
	t := in.info.TypeOf(e)
	if t == nil {
		return false
	}
	_, ok := t.Underlying().(*types.Slice)
	return ok
}

func (in *instr) isBuiltin(fun ast.Expr, name string) bool {
	id, ok := fun.(*ast.Ident)
	if !ok || id.Name != name {
		return false
	}
	_, ok = in.info.Uses[id].(*types.Builtin)
	return ok
}

func (in *instr) isPkgFunc(fun ast.Expr, pkg string, names ...string) bool {
	sel, ok := fun.(*ast.SelectorExpr)
	if !ok {
		return false
	}
	id, ok := sel.X.(*ast.Ident)
	if !ok {
		return false
	}
	pn, ok := in.info.Uses[id].(*types.PkgName)
	if !ok || pn.Imported().Path() != pkg {
		return false
	}
	for _, n := range names {
		if sel.Sel.Name == n {
			return true
		}
	}
	return false
}

func (in *instr) isPkgLevelVar(id *ast.Ident) bool {
	obj := in.info.Uses[id]
	if obj == nil {
		obj = in.info.Defs[id]
	}
	v, ok := obj.(*types.Var)
	return ok && v.Parent() == in.pkg.Scope()
}

// lhsProbe returns the probe for a write to lhs, or nil (with counted=false if it is a plain
// local variable which needs no probe).
func (in *instr) lhsProbe(lhs ast.Expr) (probe ast.Stmt, need bool) {
	for {
		p, ok := lhs.(*ast.ParenExpr)
		if !ok {
			break
		}
		lhs = p.X
	}
	switch x := lhs.(type) {
	case *ast.Ident:
		if x.Name == "_" || !in.isPkgLevelVar(x) {
			return nil, false
		}
		return vrtCall("WP", &ast.UnaryExpr{Op: token.AND, X: x}, site(in.fset, x.Pos(), "write pkgvar "+x.Name)), true
	case *ast.IndexExpr:
		if in.isMap(x.X) {
			if !pure(x.X) {
				return nil, true
			}
			return vrtCall("WMap", x.X, site(in.fset, x.Pos(), "write map elem")), true
		}
		if !pure(x) {
			return nil, true
		}
		return vrtCall("WP", &ast.UnaryExpr{Op: token.AND, X: x}, site(in.fset, x.Pos(), "write index")), true
	case *ast.SelectorExpr:
		if sel, ok := in.info.Selections[x]; !ok || sel.Kind() != types.FieldVal {
			// package-qualified identifier: a write to another package's variable
			if !pure(x) {
				return nil, true
			}
			return vrtCall("WP", &ast.UnaryExpr{Op: token.AND, X: x}, site(in.fset, x.Pos(), "write qualified var")), true
		}
		if !pure(x) {
			return nil, true
		}
		return vrtCall("WP", &ast.UnaryExpr{Op: token.AND, X: x}, site(in.fset, x.Pos(), "write field "+x.Sel.Name)), true
	case *ast.StarExpr:
		if !pure(x.X) {
			return nil, true
		}
		return vrtCall("WP", x.X, site(in.fset, x.Pos(), "write deref")), true
	}
	return nil, true
}

// callProbes finds append/copy/delete/sort calls in the statement's own expressions (not in
// nested blocks or function literals) and returns probes for them.
func (in *instr) callProbes(s ast.Stmt) (probes []ast.Stmt) {
	ast.Inspect(s, func(n ast.Node) bool {
		switch x := n.(type) {
		case *ast.BlockStmt, *ast.FuncLit:
			return false
		case *ast.CallExpr:
			var target ast.Expr
			kind, fn := "", ""
			switch {
			case in.isBuiltin(x.Fun, "append") && len(x.Args) >= 2:
				target, kind, fn = x.Args[0], "append", "Ap"
			case in.isBuiltin(x.Fun, "copy") && len(x.Args) == 2:
				target, kind, fn = x.Args[0], "copy", "WSlice"
			case in.isBuiltin(x.Fun, "delete") && len(x.Args) == 2:
				target, kind, fn = x.Args[0], "delete", "WMap"
			case in.isPkgFunc(x.Fun, "sort", "Sort", "Stable", "Slice", "SliceStable", "Strings", "Ints") && len(x.Args) >= 1:
				target, kind, fn = x.Args[0], "sort", "WSlice"
			case in.isPkgFunc(x.Fun, "slices", "Sort", "SortFunc", "SortStableFunc", "Reverse") && len(x.Args) >= 1:
				target, kind, fn = x.Args[0], "sort", "WSlice"
			}
			if fn == "" {
				return true
			}
			ok := pure(target)
			if ok && (fn == "Ap" || fn == "WSlice") && !in.isSliceLike(target) {
				ok = false
			}
			if ok && fn == "WMap" && !in.isMap(target) {
				ok = false
			}
			if !ok {
				st.Unprobed++
				st.UnprobedSites = append(st.UnprobedSites, in.fset.Position(x.Pos()).String()+" "+kind)
				return true
			}
			probes = append(probes, vrtCall(fn, target, site(in.fset, x.Pos(), kind)))
			st.Probes++
			in.used = true
		}
		return true
	})
	return probes
}

// stmtProbes returns the probes to insert before s (s must be a simple statement).
func (in *instr) stmtProbes(s ast.Stmt) []ast.Stmt {
	var probes []ast.Stmt
	addLHS := func(e ast.Expr) {
		p, need := in.lhsProbe(e)
		if !need {
			return
		}
		if p == nil {
			st.Unprobed++
			st.UnprobedSites = append(st.UnprobedSites, in.fset.Position(e.Pos()).String()+" write")
			return
		}
		probes = append(probes, p)
		st.Probes++
		in.used = true
	}
	switch x := s.(type) {
	case *ast.AssignStmt:
		if x.Tok != token.DEFINE {
			for _, l := range x.Lhs {
				addLHS(l)
			}
		}
		probes = append(probes, in.callProbes(s)...)
	case *ast.IncDecStmt:
		addLHS(x.X)
	case *ast.ExprStmt, *ast.ReturnStmt, *ast.DeclStmt, *ast.GoStmt, *ast.DeferStmt, *ast.SendStmt:
		probes = append(probes, in.callProbes(s)...)
	}
	return probes
}

// rewriteList inserts probes before the simple statements of a statement list and counts
// writes in compound-statement headers (which cannot be probed from outside) as unprobed.
func (in *instr) rewriteList(list []ast.Stmt) []ast.Stmt {
	out := make([]ast.Stmt, 0, len(list))
	for _, s := range list {
		inner := s
		if l, ok := s.(*ast.LabeledStmt); ok {
			inner = l.Stmt
		}
		switch x := inner.(type) {
		case *ast.IfStmt:
			in.header(x.Init, x.Cond)
		case *ast.ForStmt:
			in.header(x.Init, x.Cond)
			in.header(x.Post, nil)
		case *ast.SwitchStmt:
			in.header(x.Init, x.Tag)
		case *ast.TypeSwitchStmt:
			in.header(x.Init, nil)
		case *ast.RangeStmt:
			in.headerExpr(x.X)
		default:
			out = append(out, in.stmtProbes(inner)...)
		}
		out = append(out, s)
	}
	return out
}

func (in *instr) header(init ast.Stmt, cond ast.Expr) {
	if init != nil {
		n := len(in.stmtProbesDry(init))
		st.Unprobed += n
		if n > 0 {
			st.UnprobedSites = append(st.UnprobedSites, in.fset.Position(init.Pos()).String()+" header")
		}
	}
	if cond != nil {
		in.headerExpr(cond)
	}
}

func (in *instr) headerExpr(e ast.Expr) {
	n := 0
	ast.Inspect(e, func(nd ast.Node) bool {
		switch x := nd.(type) {
		case *ast.FuncLit:
			return false
		case *ast.CallExpr:
			if in.isBuiltin(x.Fun, "append") || in.isBuiltin(x.Fun, "copy") || in.isBuiltin(x.Fun, "delete") {
				n++
			}
		}
		return true
	})
	if n > 0 {
		st.Unprobed += n
		st.UnprobedSites = append(st.UnprobedSites, in.fset.Position(e.Pos()).String()+" header-expr")
	}
}

// stmtProbesDry counts the probes a header statement would need without registering sites.
func (in *instr) stmtProbesDry(s ast.Stmt) []int {
	var n []int
	switch x := s.(type) {
	case *ast.AssignStmt:
		if x.Tok != token.DEFINE {
			for _, l := range x.Lhs {
				if id, ok := l.(*ast.Ident); ok && (id.Name == "_" || !in.isPkgLevelVar(id)) {
					continue
				}
				n = append(n, 1)
			}
		}
		ast.Inspect(s, func(nd ast.Node) bool {
			if c, ok := nd.(*ast.CallExpr); ok && (in.isBuiltin(c.Fun, "append") || in.isBuiltin(c.Fun, "copy") || in.isBuiltin(c.Fun, "delete")) {
				n = append(n, 1)
			}
			_, isLit := nd.(*ast.FuncLit)
			return !isLit
		})
	case *ast.IncDecStmt:
		if id, ok := x.X.(*ast.Ident); !ok || in.isPkgLevelVar(id) {
			n = append(n, 1)
		}
	}
	return n
}

// mapRange rewrites one `range <map>` statement; returns the replacement statement.
func (in *instr) mapRange(rs *ast.RangeStmt, label *ast.Ident) ast.Stmt {
	in.used = true
	st.MapSites++
	m, k, v, ok := ast.NewIdent("vrtM"), ast.NewIdent("vrtK"), ast.NewIdent("vrtV"), ast.NewIdent("vrtOk")
	isBlank := func(e ast.Expr) bool {
		if e == nil {
			return true
		}
		id, ok := e.(*ast.Ident)
		return ok && id.Name == "_"
	}
	var pre []ast.Stmt
	needV := !isBlank(rs.Value)
	// vrtV, vrtOk := vrtM[vrtK]; if !vrtOk { continue }
	vv := ast.Expr(ast.NewIdent("_"))
	if needV {
		vv = v
	}
	pre = append(pre,
		&ast.AssignStmt{Lhs: []ast.Expr{vv, ok}, Tok: token.DEFINE, Rhs: []ast.Expr{&ast.IndexExpr{X: m, Index: k}}},
		&ast.IfStmt{Cond: &ast.UnaryExpr{Op: token.NOT, X: ok}, Body: &ast.BlockStmt{List: []ast.Stmt{&ast.BranchStmt{Tok: token.CONTINUE}}}},
	)
	var lhs, rhs []ast.Expr
	if !isBlank(rs.Key) {
		lhs, rhs = append(lhs, rs.Key), append(rhs, k)
	}
	if needV {
		lhs, rhs = append(lhs, rs.Value), append(rhs, v)
	}
	if len(lhs) > 0 {
		pre = append(pre, &ast.AssignStmt{Lhs: lhs, Tok: rs.Tok, Rhs: rhs})
	}
	body := &ast.BlockStmt{List: append(pre, rs.Body.List...)}
	loop := ast.Stmt(&ast.RangeStmt{
		Key: ast.NewIdent("_"), Value: k, Tok: token.DEFINE,
		X:    &ast.CallExpr{Fun: &ast.SelectorExpr{X: ast.NewIdent("vrt"), Sel: ast.NewIdent("MapKeys")}, Args: []ast.Expr{m, site(in.fset, rs.Pos(), "range map")}},
		Body: body,
	})
	if label != nil {
		loop = &ast.LabeledStmt{Label: label, Stmt: loop}
	}
	return &ast.BlockStmt{List: []ast.Stmt{
		&ast.AssignStmt{Lhs: []ast.Expr{m}, Tok: token.DEFINE, Rhs: []ast.Expr{rs.X}},
		loop,
	}}
}

func funcName(fset *token.FileSet, fd *ast.FuncDecl) string {
	name := fd.Name.Name
	if fd.Recv != nil && len(fd.Recv.List) > 0 {
		var b bytes.Buffer
		_ = printer.Fprint(&b, fset, fd.Recv.List[0].Type)
		name = b.String() + "." + name
	}
	return name
}

func (in *instr) file(f *ast.File) {
	funcRanges = funcRanges[:0]
	for _, d := range f.Decls {
		if fd, ok := d.(*ast.FuncDecl); ok && fd.Body != nil {
			funcRanges = append(funcRanges, funcRange{fd.Pos(), fd.End(), funcName(in.fset, fd)})
		}
	}
	// 1+3: statement lists (post-order so that inner lists are done first)
	astutil.Apply(f, nil, func(c *astutil.Cursor) bool {
		switch x := c.Node().(type) {
		case *ast.BlockStmt:
			x.List = in.rewriteList(x.List)
		case *ast.CaseClause:
			x.Body = in.rewriteList(x.Body)
		case *ast.CommClause:
			x.Body = in.rewriteList(x.Body)
		}
		return true
	})
	// map ranges (after probes so that the generated code is not probed)
	astutil.Apply(f, nil, func(c *astutil.Cursor) bool {
		switch x := c.Node().(type) {
		case *ast.RangeStmt:
			if _, isLabeled := c.Parent().(*ast.LabeledStmt); isLabeled {
				return true
			}
			if in.isMap(x.X) {
				c.Replace(in.mapRange(x, nil))
			}
		case *ast.LabeledStmt:
			if rs, ok := x.Stmt.(*ast.RangeStmt); ok && in.isMap(rs.X) {
				c.Replace(in.mapRange(rs, x.Label))
			}
		}
		return true
	})
	// 2: yields at function entry
	for _, d := range f.Decls {
		fd, ok := d.(*ast.FuncDecl)
		if !ok || fd.Body == nil {
			continue
		}
		name := funcName(in.fset, fd)
		fd.Body.List = append([]ast.Stmt{vrtCall("Yield", site(in.fset, fd.Pos(), "func "+name))}, fd.Body.List...)
		st.Yields++
		in.used = true
	}
	if in.used {
		astutil.AddNamedImport(in.fset, f, "vrt", vrtPath)
	}
}

func main() {
	repo := flag.String("repo", "/repo", "repository root")
	out := flag.String("out", "/verif/build/overlay", "output directory")
	vrtSrc := flag.String("vrt", "/verif/internal/vrtsrc/vrt.go.txt", "vrt runtime source")
	extra := flag.String("extra", os.Getenv("VERIF_EXTRA_OVERLAY"), "extra overlay json to layer on top (file replacements applied before instrumentation)")
	flag.Parse()
	_ = os.RemoveAll(*out)
	if err := os.MkdirAll(*out, 0o755); err != nil {
		fatal(err)
	}
	cfg := &packages.Config{
		Mode: packages.NeedName | packages.NeedFiles | packages.NeedSyntax | packages.NeedTypes | packages.NeedTypesInfo | packages.NeedImports | packages.NeedDeps | packages.NeedCompiledGoFiles,
		Dir:  *repo,
		Env:  append(os.Environ(), "GOFLAGS=-mod=mod", "GOPROXY=off", "GOSUMDB=off", "GOTOOLCHAIN=local"),
	}
	if *extra != "" {
		cfg.BuildFlags = []string{"-overlay", *extra}
	}
	pkgs, err := packages.Load(cfg, "./decoder/...", "./lang/...", "./reference/...", "./schema/...", "./schemacontext/...", "./validator/...")
	if err != nil {
		fatal(err)
	}
	overlay := map[string]string{}
	for _, p := range pkgs {
		if len(p.Errors) > 0 {
			fatal(fmt.Errorf("package %s: %v", p.PkgPath, p.Errors[0]))
		}
		for ip := range p.Imports {
			if ip == "sync" || ip == "sync/atomic" {
				st.SyncImported = append(st.SyncImported, p.PkgPath+" imports "+ip)
			}
		}
		var globals []string
		sc := p.Types.Scope()
		for _, n := range sc.Names() {
			if v, ok := sc.Lookup(n).(*types.Var); ok {
				globals = append(globals, v.Name())
				st.Globals = append(st.Globals, p.PkgPath+"."+v.Name())
			}
		}
		rel := strings.TrimPrefix(p.PkgPath, "github.com/hashicorp/hcl-lang")
		dir := filepath.Join(*out, rel)
		if err := os.MkdirAll(dir, 0o755); err != nil {
			fatal(err)
		}
		for i, f := range p.Syntax {
			src := p.CompiledGoFiles[i]
			if strings.HasSuffix(src, "_test.go") {
				continue
			}
			in := &instr{fset: p.Fset, info: p.TypesInfo, pkg: p.Types}
			in.file(f)
			f.Comments = nil
			var b bytes.Buffer
			if err := printer.Fprint(&b, p.Fset, f); err != nil {
				fatal(err)
			}
			dst := filepath.Join(dir, filepath.Base(src))
			if err := os.WriteFile(dst, b.Bytes(), 0o644); err != nil {
				fatal(err)
			}
			// the overlay key is always the path under the real repo
			key := src
			overlay[key] = dst
			st.Files++
		}
		// export file: package-level variables (+ internals used by oracles)
		var b bytes.Buffer
		fmt.Fprintf(&b, "//go:build verif\n\npackage %s\n\n// VerifGlobals returns the addresses of all package-level variables.\nfunc VerifGlobals() []any {\n\treturn []any{", p.Name)
		sort.Strings(globals)
		for _, g := range globals {
			fmt.Fprintf(&b, "&%s, ", g)
		}
		fmt.Fprintf(&b, "}\n}\n")
		if p.PkgPath == "github.com/hashicorp/hcl-lang/decoder" {
			fmt.Fprintf(&b, `
// VerifInternalGlobals returns the package-level variables of decoder's internal packages.
func VerifInternalGlobals() []any {
	var out []any
	out = append(out, schemahelper.VerifGlobals()...)
	out = append(out, ast.VerifGlobals()...)
	out = append(out, walker.VerifGlobals()...)
	return out
}

// VerifMergeBlockBodySchemas exposes the derivation of a block's effective body schema.
func VerifMergeBlockBodySchemas(block *hcl.Block, bs *schema.BlockSchema) (*schema.BodySchema, int) {
	s, r := schemahelper.MergeBlockBodySchemas(block, bs)
	return s, int(r)
}
`)
			b2 := strings.Replace(b.String(), "package decoder\n", "package decoder\n\nimport (\n\t\"github.com/hashicorp/hcl-lang/decoder/internal/ast\"\n\t\"github.com/hashicorp/hcl-lang/decoder/internal/walker\"\n\t\"github.com/hashicorp/hcl-lang/decoder/internal/schemahelper\"\n\t\"github.com/hashicorp/hcl-lang/schema\"\n\t\"github.com/hashicorp/hcl/v2\"\n)\n", 1)
			b.Reset()
			b.WriteString(b2)
		}
		exp := filepath.Join(dir, "zz_verif_export.go")
		if err := os.WriteFile(exp, b.Bytes(), 0o644); err != nil {
			fatal(err)
		}
		overlay[filepath.Join(*repo, rel, "zz_verif_export.go")] = exp
	}
	// vrt runtime as a virtual package of the repo module, with the site table
	vb, err := os.ReadFile(*vrtSrc)
	if err != nil {
		fatal(err)
	}
	vdir := filepath.Join(*out, "vrt")
	_ = os.MkdirAll(vdir, 0o755)
	if err := os.WriteFile(filepath.Join(vdir, "vrt.go"), vb, 0o644); err != nil {
		fatal(err)
	}
	overlay[filepath.Join(*repo, "vrt", "vrt.go")] = filepath.Join(vdir, "vrt.go")
	var sb bytes.Buffer
	fmt.Fprintf(&sb, "//go:build verif\n\npackage vrt\n\n// Sites maps site ids to source positions (generated).\nvar Sites = []string{\n")
	for _, s := range sites {
		fmt.Fprintf(&sb, "\t%q,\n", s)
	}
	fmt.Fprintf(&sb, "}\n\n// Stats of the instrumentation run.\nconst (\n\tNumMapSites = %d\n\tNumYields = %d\n\tNumProbes = %d\n\tNumUnprobed = %d\n\tSyncImported = %v\n)\n", st.MapSites, st.Yields, st.Probes, st.Unprobed, len(st.SyncImported) > 0)
	if err := os.WriteFile(filepath.Join(vdir, "sites.go"), sb.Bytes(), 0o644); err != nil {
		fatal(err)
	}
	overlay[filepath.Join(*repo, "vrt", "sites.go")] = filepath.Join(vdir, "sites.go")
	// layer the extra overlay (mutants): its replacements were already used as instrumentation input
	ob, _ := json.MarshalIndent(map[string]any{"Replace": overlay}, "", " ")
	if err := os.WriteFile(filepath.Join(*out, "overlay.json"), ob, 0o644); err != nil {
		fatal(err)
	}
	sj, _ := json.MarshalIndent(st, "", " ")
	_ = os.WriteFile(filepath.Join(*out, "stats.json"), sj, 0o644)
	fmt.Printf("vinstr: %d files, %d map sites, %d yields, %d probes, %d unprobed write sites, %d package vars\n", st.Files, st.MapSites, st.Yields, st.Probes, st.Unprobed, len(st.Globals))
}

func fatal(err error) {
	fmt.Fprintln(os.Stderr, "vinstr:", err)
	os.Exit(2)
}
