package explore

import (
	"os"
	"strings"

	"verif/internal/gen"
)

// CaseOpts selects which file families a sweep includes.
type CaseOpts struct {
	Tier     string
	Prefixes bool // every byte prefix of the seeds
	Edits    bool // single-token edits
	Seqs     bool // all token strings of length <= k as values / body content
	JSON     bool // JSON renderings of a few seeds
	// OnlyFamily restricts to "cons" or "struct" entries ("" = both)
	OnlyFamily string
	// MaxCons limits the number of cons entries (0 = all); used by cheap property checks.
	MaxCons int
}

// Cases enumerates the worlds of the product sweep in a fixed, simplest-first order (materialised;
// use Groups for the big sweeps).
func Cases(o CaseOpts) []Case {
	var out []Case
	for _, g := range Groups(o) {
		out = append(out, g()...)
	}
	return out
}

// Groups returns the sweep as lazily generated groups of cases (one per catalogue entry, for
// structure templates one per seed), so that the thorough tier never holds the whole case list.
func Groups(o CaseOpts) []func() []Case {
	cat := gen.Catalogue(o.Tier)
	var groups []func() []Case
	ncons := 0
	only := os.Getenv("VERIF_ONLY_ENTRY") // development aid: restrict the sweep to entries whose id contains this text
	for i := range cat {
		e := &cat[i]
		if o.OnlyFamily != "" && e.Family != o.OnlyFamily {
			continue
		}
		if only != "" && !strings.Contains(e.ID, only) {
			continue
		}
		if e.Family == "cons" {
			ncons++
			if o.MaxCons > 0 && ncons > o.MaxCons {
				continue
			}
			groups = append(groups, func() []Case { return casesForEntry(e, o, -1) })
			continue
		}
		for si := range e.Seeds {
			si := si
			groups = append(groups, func() []Case { return casesForEntry(e, o, si) })
		}
		if len(e.Seeds) == 0 {
			groups = append(groups, func() []Case { return casesForEntry(e, o, -1) })
		}
	}
	return groups
}

// casesForEntry generates the cases of one entry (seedIdx >= 0: only that seed of a structure template).
func casesForEntry(e *gen.Entry, o CaseOpts, seedIdx int) []Case {
	vals := gen.ValueTexts(o.Tier)
	thorough := o.Tier == "thorough"
	var out []Case
	{
		switch e.Family {
		case "cons":
			for _, v := range vals {
				seeds := gen.ConsSeeds(v)
				for si, s := range seeds {
					out = append(out, Case{Entry: e, File: "main.tf", Text: s, Family: "seed", PosTo: -1})
					// (quick tier: byte prefixes of the short value texts only; the long ones are cut at every byte in the thorough tier)
					if o.Prefixes && (si == 0 || thorough && si == 2) && (thorough || len(v) <= 26) {
						// prefixes that cut inside the value (the prefix up to "attr = " is shared by all)
						start := strings.Index(s, "=") + 1
						for _, p := range gen.Prefixes(s) {
							if len(p) < start || len(p) == len(s) {
								continue
							}
							out = append(out, Case{Entry: e, File: "main.tf", Text: p, Family: "prefix", PosTo: -1})
						}
					}
					if o.Edits && si == 0 && thorough {
						for _, ed := range gen.Edits1(s, false) {
							out = append(out, Case{Entry: e, File: "main.tf", Text: ed, Family: "edit", PosTo: -1})
						}
					}
					// the same file with CRLF line endings (multi-line values in every tier, all in thorough)
					if si == 3 && (thorough || strings.Contains(v, "\n")) && !strings.Contains(v, "\r") {
						out = append(out, Case{Entry: e, File: "main.tf", Text: strings.ReplaceAll(s, "\n", "\r\n"), Family: "crlf", PosTo: -1})
					}
				}
			}
			if o.JSON {
				for _, v := range gen.JSONValueTexts() {
					for _, s := range gen.JSONConsSeeds(v) {
						// (position queries answer "unknown format" for JSON files: one position is enough)
						out = append(out, Case{Entry: e, File: "main.tf.json", Text: s, Family: "json", PosFrom: 0, PosTo: 0})
					}
				}
			}
			// attribute name / equals sign being typed
			for _, s := range []string{"", "a", "attr", "attr ", "attr =", "attr = ", "attr =fn(", "attr =[fn(1, ]", "attr =\"x", "  attr = true\n", "attr =\n", "blk {\n  attr = \n}\n", "blk {\n  attr =\n", "blk {\n  \n}\n",
				// the same half-typed values on the attribute that has completion hooks and an address
				"attr2 =fn(", "attr2 =fn(\n", "attr =fn(\n", "attr2 =[fn(1, ]", "attr2 =\"x", "attr2 =\n", "attr2 = fn(1,\n", "attr2 =    \n", "attr2 = # c\n", "attr2 = /* c */ \n", "attr2 =    "} {
				out = append(out, Case{Entry: e, File: "main.tf", Text: s, Family: "prefix", PosTo: -1})
			}
			if o.Seqs {
				k := 3
				if thorough {
					k = 4
				}
				if e.Cons != nil && (strings.HasPrefix(e.Cons.Name, "Any{object}") || strings.HasPrefix(e.Cons.Name, "LiteralType{object}") ||
					e.Cons.Name == "Any{dynamic}" || strings.HasPrefix(e.Cons.Name, "Object{foo:LiteralType{string}") ||
					strings.HasPrefix(e.Cons.Name, "Map{LiteralType{string}") || strings.HasPrefix(e.Cons.Name, "List{Any{string}") ||
					e.Cons.Name == "TypeDeclaration" || strings.HasPrefix(e.Cons.Name, "OneOf{Any{object}")) {
					for _, sq := range gen.Seqs(k) {
						out = append(out, Case{Entry: e, File: "main.tf", Text: "attr = " + sq, Family: "seq", PosFrom: 6, PosTo: 1 << 30})
						out = append(out, Case{Entry: e, File: "main.tf", Text: "attr = {" + sq, Family: "seq", PosFrom: 6, PosTo: 1 << 30})
					}
				}
			}
		case "struct":
			for si, s := range e.Seeds {
				if seedIdx >= 0 && si != seedIdx {
					continue
				}
				out = append(out, Case{Entry: e, File: "main.tf", Text: s, Family: "seed", PosTo: -1})
				if o.Prefixes {
					for _, p := range gen.Prefixes(s) {
						if len(p) == len(s) {
							continue
						}
						out = append(out, Case{Entry: e, File: "main.tf", Text: p, Family: "prefix", PosTo: -1})
					}
				}
				if crlf := strings.ReplaceAll(s, "\n", "\r\n"); crlf != s {
					out = append(out, Case{Entry: e, File: "main.tf", Text: crlf, Family: "crlf", PosTo: -1})
					if o.Prefixes && thorough {
						for _, p := range gen.Prefixes(crlf) {
							if len(p) != len(crlf) {
								out = append(out, Case{Entry: e, File: "main.tf", Text: p, Family: "crlf-prefix", PosTo: -1})
							}
						}
					}
				}
				if o.Edits {
					lvl := 0
					if thorough {
						lvl = 2
					}
					for _, ed := range gen.EditsLevel(s, lvl) {
						out = append(out, Case{Entry: e, File: "main.tf", Text: ed, Family: "edit", PosTo: -1})
					}
				}
			}
			if o.Seqs && strings.HasPrefix(e.ID, "S:blocks-basic") && seedIdx <= 0 {
				k := 3
				if thorough {
					k = 5
				}
				for _, sq := range gen.Seqs(k) {
					out = append(out, Case{Entry: e, File: "main.tf", Text: sq, Family: "seq", PosTo: -1})
					out = append(out, Case{Entry: e, File: "main.tf", Text: "one \"a\" {\n" + sq, Family: "seq", PosFrom: 8, PosTo: 1 << 30})
				}
			}
		}
	}
	return out
}
