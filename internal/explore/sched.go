package explore

import (
	"fmt"
	"time"

	"verif/internal/instr"
)

// E5: cooperative scheduler. Threads are goroutines of which exactly one runs at a time;
// control changes only inside the instrumented library's yield points (function entries and
// write probes). A thread's program counter is its number of executed yields.

// Segment: run thread T for Steps yields (Steps < 0: to completion).
type Segment struct {
	T     int
	Steps int
}

// ThreadResult of one scheduled thread.
type ThreadResult struct {
	Val      any
	Panicked string
	Yields   int
	Done     bool
}

type sched struct {
	bodies  []func() any
	resume  []chan struct{}
	events  chan int // thread id that stopped (yield limit reached or finished)
	cur     int
	budget  int // remaining yields of the current segment (<0: unlimited)
	pcs     []int
	res     []ThreadResult
	trace   []int // sites of yields in global order (only if recordTrace)
	onYield func(t, pc, site int)
}

func (s *sched) hook(site int) {
	t := s.cur
	s.pcs[t]++
	if s.onYield != nil {
		s.onYield(t, s.pcs[t], site)
	}
	if s.budget > 0 {
		s.budget--
		if s.budget == 0 {
			// segment exhausted: hand control back to the controller and wait
			s.events <- t
			<-s.resume[t]
		}
	}
}

// RunSchedule executes the bodies under the given schedule; after the schedule's segments are
// exhausted the remaining threads run to completion in index order. Returns per-thread results.
// A thread that does not come back within the watchdog limit is reported as blocked.
func RunSchedule(bodies []func() any, schedule []Segment, onYield func(t, pc, site int)) ([]ThreadResult, error) {
	n := len(bodies)
	s := &sched{bodies: bodies, resume: make([]chan struct{}, n), events: make(chan int), pcs: make([]int, n), res: make([]ThreadResult, n), onYield: onYield}
	for i := range s.resume {
		s.resume[i] = make(chan struct{})
	}
	instr.SetYieldHook(s.hook)
	defer instr.SetYieldHook(nil)
	finished := make([]bool, n)
	for i := 0; i < n; i++ {
		go func(i int) {
			<-s.resume[i]
			func() {
				defer func() {
					if r := recover(); r != nil {
						s.res[i].Panicked = fmt.Sprint(r)
					}
				}()
				s.res[i].Val = bodies[i]()
			}()
			s.res[i].Done = true
			finished[i] = true
			s.events <- i
		}(i)
	}
	runSeg := func(t, steps int) error {
		if finished[t] {
			return nil
		}
		if steps == 0 {
			return nil
		}
		s.cur = t
		s.budget = steps
		s.resume[t] <- struct{}{}
		select {
		case <-s.events:
			return nil
		case <-time.After(120 * time.Second):
			return fmt.Errorf("thread %d did not yield or finish within 120s (blocked)", t)
		}
	}
	for _, seg := range schedule {
		if seg.T < 0 || seg.T >= n {
			return nil, fmt.Errorf("schedule names thread %d of %d", seg.T, n)
		}
		if err := runSeg(seg.T, seg.Steps); err != nil {
			return s.res, err
		}
	}
	for t := 0; t < n; t++ {
		for !finished[t] {
			if err := runSeg(t, -1); err != nil {
				return s.res, err
			}
		}
	}
	for t := 0; t < n; t++ {
		s.res[t].Yields = s.pcs[t]
	}
	return s.res, nil
}
