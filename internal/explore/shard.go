package explore

import (
	"fmt"
	"os"
	"os/exec"
	"path/filepath"
	"sync"

	"verif/internal/report"
)

// Shard returns (i, n) when this process is a shard worker, else (0, 0).
func Shard() (int, int) {
	var i, n int
	if _, err := fmt.Sscanf(os.Getenv("VERIF_SHARD"), "%d/%d", &i, &n); err == nil && n > 0 {
		return i, n
	}
	return 0, 0
}

// RunSharded re-executes this binary as n shard processes for (prop, tier) and merges their
// partial results into c. Used by the instrumented checks, whose runtime (map-order chooser,
// scheduler, write barrier, step counter) is process-global and therefore single-threaded.
func RunSharded(prop, tier string, n int, c *report.Collector) error {
	dir := filepath.Join(report.Root, "build", "partial")
	_ = os.MkdirAll(dir, 0o755)
	var wg sync.WaitGroup
	errs := make([]error, n)
	for i := 0; i < n; i++ {
		wg.Add(1)
		go func(i int) {
			defer wg.Done()
			out := filepath.Join(dir, fmt.Sprintf("%s-%d.json", prop, i))
			_ = os.Remove(out)
			cmd := exec.Command(os.Args[0], prop, "--tier", tier)
			cmd.Env = append(os.Environ(), fmt.Sprintf("VERIF_SHARD=%d/%d", i, n), "VERIF_PARTIAL="+out, "GOMAXPROCS=2")
			cmd.Stderr = os.Stderr
			if err := cmd.Run(); err != nil {
				errs[i] = fmt.Errorf("shard %d: %v", i, err)
				return
			}
			if err := c.ImportPartial(out); err != nil {
				errs[i] = fmt.Errorf("shard %d: %v", i, err)
			}
		}(i)
	}
	wg.Wait()
	for _, e := range errs {
		if e != nil {
			return e
		}
	}
	return nil
}

// FinishShard writes the partial result of a shard worker and returns its exit code.
func FinishShard(c *report.Collector) int {
	if err := c.ExportPartial(os.Getenv("VERIF_PARTIAL")); err != nil {
		fmt.Fprintln(os.Stderr, "shard export:", err)
		return 2
	}
	return 0
}
