// Package explore holds the exploration engines. E1 (this file): deterministic nested
// enumeration world -> file -> (query, position), sharded over worker goroutines.
package explore

import (
	"fmt"
	"os"
	"runtime"
	"strconv"
	"sync"
	"sync/atomic"
	"time"

	"github.com/hashicorp/hcl/v2"

	"verif/internal/gen"
	"verif/internal/report"
	"verif/internal/run"
	"verif/internal/world"
)

// Case is one world of the sweep: a catalogue entry plus the text of its main file.
type Case struct {
	Entry  *gen.Entry
	File   string // file name (main.tf or main.tf.json)
	Text   string
	Family string // seed | prefix | edit | seq | json ...
	// More: additional files of the same path (multi-file worlds)
	More []world.FileSpec
	// PosFrom/PosTo restrict cursor positions to [PosFrom, PosTo] (byte offsets); PosTo<0 = all
	PosFrom, PosTo int
}

// Spec builds the world spec of a case.
func (cs *Case) Spec() *world.Spec {
	return EntrySpec(cs.Entry, append([]world.FileSpec{{Name: cs.File, Text: cs.Text}}, cs.More...))
}

// EntrySpec builds a world spec from a catalogue entry and the files of its first path.
func EntrySpec(e *gen.Entry, files []world.FileSpec) *world.Spec {
	sp := &world.Spec{SchemaID: e.ID, HookItems: e.Hooks}
	if len(e.Companion) > 0 {
		files = append(append([]world.FileSpec{}, files...), e.Companion...)
	}
	sp.Paths = append(sp.Paths, world.PathSpec{Path: "/p0", Schema: e.Mk, Files: files, Funcs: gen.Functions})
	sp.Paths = append(sp.Paths, e.Extra...)
	return sp
}

// Files renders the files of a case for a replay.
func (cs *Case) Files() []report.FileSpec {
	out := []report.FileSpec{{Path: "/p0", Name: cs.File, Text: cs.Text}}
	for _, m := range cs.More {
		out = append(out, report.FileSpec{Path: "/p0", Name: m.Name, Text: m.Text})
	}
	for _, m := range cs.Entry.Companion {
		out = append(out, report.FileSpec{Path: "/p0", Name: m.Name, Text: m.Text})
	}
	return out
}

// Ctx is handed to the per-result callback.
type Ctx struct {
	W     *world.World
	Case  *Case
	Src   []byte
	L     *report.Local
	C     *report.Collector
	Store map[string]any // per-world scratch for plug-ins
}

// Opts of a sweep.
type Opts struct {
	Kinds   []run.Kind
	MidRune bool
	// OnWorld is called once per world before the queries (may be nil).
	OnWorld func(cx *Ctx)
	// OnResult is called for every call.
	OnResult func(cx *Ctx, q run.Query, r run.Result)
	// WSQueries are the workspace-symbol query strings.
	WSQueries []string
}

func workers() int {
	if s := os.Getenv("VERIF_WORKERS"); s != "" {
		if n, err := strconv.Atoi(s); err == nil && n > 0 {
			return n
		}
	}
	return runtime.NumCPU()
}

// Deadline returns the internal deadline of a run (never an oracle: a run that reaches it ends
// with exit 0 and exhaustive:false).
func Deadline(tier string) time.Time {
	d := 300 * time.Second
	if tier == "thorough" {
		d = 40 * time.Minute
	}
	if s := os.Getenv("VERIF_DEADLINE_S"); s != "" {
		if n, err := strconv.Atoi(s); err == nil && n > 0 {
			d = time.Duration(n) * time.Second
		}
	}
	return time.Now().Add(d)
}

// ParallelEach runs fn over [0,n) with a worker pool; every worker owns a Local that is merged
// into c at the end. Items are handed out in index order. When the deadline passes, no new
// items are started and the run is marked inexhaustive.
func ParallelEach(n int, c *report.Collector, deadline time.Time, fn func(i int, l *report.Local)) {
	var next int64 = -1
	var wg sync.WaitGroup
	var stopped int64 = -1
	nw := workers()
	cur := make([]atomic.Value, nw)
	prog := make([]int64, nw)
	doing := make([]atomic.Value, nw)
	done := make(chan struct{})
	// watchdog: a call that does not return is a termination failure; report where.
	go func() {
		last := make([]int64, nw)
		stuck := make([]int, nw)
		t := time.NewTicker(10 * time.Second)
		defer t.Stop()
		for {
			select {
			case <-done:
				return
			case <-t.C:
				for w := 0; w < nw; w++ {
					p := atomic.LoadInt64(&prog[w])
					if p == last[w] && cur[w].Load() != nil && cur[w].Load().(string) != "" {
						stuck[w]++
						if stuck[w] == 12 {
							what := cur[w].Load().(string)
							if d, ok := doing[w].Load().(*report.Local); ok && d != nil {
								if s, ok := d.Doing.Load().(string); ok && s != "" {
									what += ": " + s
								}
							}
							fmt.Fprintf(os.Stderr, "WATCHDOG: worker %d has made no progress for 120s on %s\n", w, what)
							if HangHook != nil {
								HangHook(what)
							}
						}
					} else {
						stuck[w] = 0
					}
					last[w] = p
				}
			}
		}
	}()
	for w := 0; w < nw; w++ {
		wg.Add(1)
		go func(w int) {
			defer wg.Done()
			l := report.NewLocal()
			l.Prog = &prog[w]
			doing[w].Store(l)
			defer c.Merge(l)
			for {
				i := int(atomic.AddInt64(&next, 1))
				if i >= n {
					return
				}
				if time.Now().After(deadline) {
					atomic.CompareAndSwapInt64(&stopped, -1, int64(i))
					return
				}
				cur[w].Store(fmt.Sprintf("item %d", i))
				fn(i, l)
				atomic.AddInt64(&prog[w], 1)
				cur[w].Store("")
			}
		}(w)
	}
	wg.Wait()
	close(done)
	if s := atomic.LoadInt64(&stopped); s >= 0 {
		c.Inexhaustive(fmt.Sprintf("internal deadline reached; items 0..%d of %d fully covered", s-int64(nw), n))
	}
}

// HangHook is called by the watchdog with a description of the stuck item.
var HangHook func(item string)

// Tick lets long-running items signal progress to the watchdog (optional).

// Sweep runs E1 over the cases.
func Sweep(cases []Case, c *report.Collector, deadline time.Time, o Opts) {
	ParallelEach(len(cases), c, deadline, func(i int, l *report.Local) {
		cs := &cases[i]
		SweepCase(cs, c, l, o)
	})
}

// SweepGroups runs E1 over lazily generated groups of cases; returns the number of cases swept.
func SweepGroups(groups []func() []Case, c *report.Collector, deadline time.Time, o Opts) {
	ParallelEach(len(groups), c, deadline, func(i int, l *report.Local) {
		cases := groups[i]()
		for j := range cases {
			SweepCase(&cases[j], c, l, o)
		}
		l.Count("cases", int64(len(cases)))
	})
}

// SweepCase runs all queries of one case.
func SweepCase(cs *Case, c *report.Collector, l *report.Local, o Opts) {
	l.Doing.Store(cs.Entry.ID + " " + cs.Family + " " + fmt.Sprintf("%.120q", cs.Text))
	w := world.Build(cs.Spec())
	src := []byte(cs.Text)
	cx := &Ctx{W: w, Case: cs, Src: src, L: l, C: c, Store: map[string]any{}}
	l.Count("worlds", 1)
	if o.OnWorld != nil {
		o.OnWorld(cx)
	}
	var positions []hcl.Pos
	for _, k := range o.Kinds {
		switch {
		case isPosKind(k):
			if positions == nil {
				positions = run.AllPositions(src, o.MidRune)
				if cs.PosTo >= 0 && (cs.PosFrom > 0 || cs.PosTo < len(src)) {
					var f []hcl.Pos
					for _, p := range positions {
						if p.Byte >= cs.PosFrom && p.Byte <= cs.PosTo {
							f = append(f, p)
						}
					}
					positions = f
				}
			}
			for _, p := range positions {
				q := run.Query{Kind: k, Path: 0, File: cs.File, Pos: p}
				r := run.Call(w, q)
				l.Count("calls", 1)
				o.OnResult(cx, q, r)
			}
		case k == run.SymbolsWS:
			qs := o.WSQueries
			if qs == nil {
				qs = []string{""}
			}
			for _, s := range qs {
				q := run.Query{Kind: k, Path: 0, Query: s}
				r := run.Call(w, q)
				l.Count("calls", 1)
				o.OnResult(cx, q, r)
			}
		default:
			q := run.Query{Kind: k, Path: 0, File: cs.File}
			r := run.Call(w, q)
			l.Count("calls", 1)
			o.OnResult(cx, q, r)
		}
	}
}

func isPosKind(k run.Kind) bool {
	for _, p := range run.PosKinds {
		if p == k {
			return true
		}
	}
	return false
}
