// Package gen holds the enumerators: constraint universe, structure templates, value texts,
// file mutators and positions. Everything is ordered simplest-first and is deterministic.
package gen

import (
	"github.com/hashicorp/hcl-lang/lang"
	"github.com/hashicorp/hcl-lang/schema"
	"github.com/zclconf/go-cty/cty"
)

// NC is a named constraint constructor (fresh value per call).
type NC struct {
	Name string
	Mk   func() schema.Constraint
}

var objType = cty.Object(map[string]cty.Type{"foo": cty.String, "bar": cty.Bool})
var objOptType = cty.ObjectWithOptionalAttrs(map[string]cty.Type{"foo": cty.String, "bar": cty.Bool}, []string{"bar"})
var tupType = cty.Tuple([]cty.Type{cty.String, cty.Bool})

type namedType struct {
	Name string
	T    cty.Type
}

var litTypes = []namedType{
	{"string", cty.String}, {"number", cty.Number}, {"bool", cty.Bool}, {"dynamic", cty.DynamicPseudoType},
	{"list_string", cty.List(cty.String)}, {"set_string", cty.Set(cty.String)}, {"map_string", cty.Map(cty.String)},
	{"tuple", tupType}, {"object", objType}, {"objectopt", objOptType},
	{"list_object", cty.List(objType)}, {"map_list", cty.Map(cty.List(cty.Number))},
}

// Leaves returns the leaf constraints of the universe.
func Leaves() []NC {
	var out []NC
	for _, nt := range litTypes {
		nt := nt
		out = append(out, NC{"LiteralType{" + nt.Name + "}", func() schema.Constraint { return schema.LiteralType{Type: nt.T} }})
	}
	for _, nt := range litTypes[4:9] {
		nt := nt
		out = append(out, NC{"LiteralType{" + nt.Name + ",skip}", func() schema.Constraint { return schema.LiteralType{Type: nt.T, SkipComplexTypes: true} }})
	}
	out = append(out,
		NC{"LiteralValue{true}", func() schema.Constraint { return schema.LiteralValue{Value: cty.True} }},
		NC{"LiteralValue{\"foo\"}", func() schema.Constraint {
			return schema.LiteralValue{Value: cty.StringVal("foo"), Description: lang.Markdown("the foo")}
		}},
		NC{"LiteralValue{42}", func() schema.Constraint { return schema.LiteralValue{Value: cty.NumberIntVal(42), IsDeprecated: true} }},
		NC{"LiteralValue{[\"a\"]}", func() schema.Constraint {
			return schema.LiteralValue{Value: cty.ListVal([]cty.Value{cty.StringVal("a")})}
		}},
		NC{"LiteralValue{set}", func() schema.Constraint {
			return schema.LiteralValue{Value: cty.SetVal([]cty.Value{cty.StringVal("a"), cty.StringVal("b")})}
		}},
		NC{"LiteralValue{tuple}", func() schema.Constraint {
			return schema.LiteralValue{Value: cty.TupleVal([]cty.Value{cty.StringVal("a"), cty.True})}
		}},
		NC{"LiteralValue{{k=\"v\"}}", func() schema.Constraint {
			return schema.LiteralValue{Value: cty.MapVal(map[string]cty.Value{"k": cty.StringVal("v")})}
		}},
		NC{"LiteralValue{obj}", func() schema.Constraint {
			return schema.LiteralValue{Value: cty.ObjectVal(map[string]cty.Value{"foo": cty.StringVal("x"), "bar": cty.True})}
		}},
		NC{"Keyword{kwd}", func() schema.Constraint {
			return schema.Keyword{Keyword: "kwd", Name: "kw name", Description: lang.PlainText("a keyword")}
		}},
		NC{"TypeDeclaration", func() schema.Constraint { return schema.TypeDeclaration{} }},
		NC{"Reference{OfType string}", func() schema.Constraint { return schema.Reference{OfType: cty.String} }},
		NC{"Reference{OfType dynamic}", func() schema.Constraint { return schema.Reference{OfType: cty.DynamicPseudoType} }},
		NC{"Reference{OfScopeId sa}", func() schema.Constraint { return schema.Reference{OfScopeId: lang.ScopeId("sa"), Name: "sa ref"} }},
		NC{"Reference{Address sa}", func() schema.Constraint {
			return schema.Reference{Address: &schema.ReferenceAddrSchema{ScopeId: lang.ScopeId("sa")}}
		}},
		NC{"Reference{OfScopeId sa,Address sb}", func() schema.Constraint {
			return schema.Reference{OfScopeId: lang.ScopeId("sa"), Address: &schema.ReferenceAddrSchema{ScopeId: lang.ScopeId("sb")}}
		}},
	)
	for _, nt := range litTypes[:9] {
		nt := nt
		out = append(out, NC{"Any{" + nt.Name + "}", func() schema.Constraint { return schema.AnyExpression{OfType: nt.T} }})
	}
	// unusual values and types the schema package accepts
	out = append(out,
		NC{"LiteralValue{null}", func() schema.Constraint { return schema.LiteralValue{Value: cty.NullVal(cty.String)} }},
		NC{"LiteralValue{unknown}", func() schema.Constraint { return schema.LiteralValue{Value: cty.UnknownVal(cty.String)} }},
		NC{"LiteralValue{dynamic}", func() schema.Constraint { return schema.LiteralValue{Value: cty.DynamicVal} }},
		NC{"LiteralValue{\"a${1}b$c\"}", func() schema.Constraint { return schema.LiteralValue{Value: cty.StringVal("a${1}b$c")} }},
		NC{"LiteralValue{\"line1\\nline2\"}", func() schema.Constraint { return schema.LiteralValue{Value: cty.StringVal("line1\nline2\n")} }},
		NC{"LiteralValue{map_tmplkey}", func() schema.Constraint {
			return schema.LiteralValue{Value: cty.MapVal(map[string]cty.Value{"k${3:y}": cty.StringVal("v"), "pct%{x": cty.StringVal("w")})}
		}},
		NC{"LiteralValue{object_oddkeys}", func() schema.Constraint {
			return schema.LiteralValue{Value: cty.ObjectVal(map[string]cty.Value{"a b": cty.StringVal("v"), "1st": cty.NumberIntVal(2), "ok": cty.True})}
		}},
		NC{"LiteralValue{\"a $ b } c\"}", func() schema.Constraint { return schema.LiteralValue{Value: cty.StringVal("a $ b } c")} }},
		NC{"LiteralValue{1e30}", func() schema.Constraint { return schema.LiteralValue{Value: cty.MustParseNumberVal("1e30")} }},
		NC{"LiteralValue{-2.5}", func() schema.Constraint { return schema.LiteralValue{Value: cty.MustParseNumberVal("-2.5")} }},
		NC{"LiteralValue{[]}", func() schema.Constraint { return schema.LiteralValue{Value: cty.ListValEmpty(cty.String)} }},
		NC{"LiteralValue{{}}", func() schema.Constraint { return schema.LiteralValue{Value: cty.EmptyObjectVal} }},
		NC{"LiteralValue{emptytuple}", func() schema.Constraint { return schema.LiteralValue{Value: cty.EmptyTupleVal} }},
		NC{"LiteralValue{set_number}", func() schema.Constraint {
			return schema.LiteralValue{Value: cty.SetVal([]cty.Value{cty.NumberIntVal(1), cty.NumberIntVal(2)})}
		}},
		NC{"LiteralValue{nested}", func() schema.Constraint {
			return schema.LiteralValue{Value: cty.ObjectVal(map[string]cty.Value{"foo": cty.ListVal([]cty.Value{cty.StringVal("a")}), "bar": cty.NullVal(cty.Bool)})}
		}},
		NC{"LiteralType{emptyobject}", func() schema.Constraint { return schema.LiteralType{Type: cty.EmptyObject} }},
		NC{"LiteralType{emptytuple}", func() schema.Constraint { return schema.LiteralType{Type: cty.EmptyTuple} }},
		NC{"LiteralType{set_object}", func() schema.Constraint { return schema.LiteralType{Type: cty.Set(objType)} }},
		NC{"Any{emptyobject}", func() schema.Constraint { return schema.AnyExpression{OfType: cty.EmptyObject} }},
		NC{"Any{set_object}", func() schema.Constraint { return schema.AnyExpression{OfType: cty.Set(objType)} }},
		NC{"Any{map_dynamic}", func() schema.Constraint { return schema.AnyExpression{OfType: cty.Map(cty.DynamicPseudoType)} }},
		NC{"Any{object_any_mix}", func() schema.Constraint {
			return schema.AnyExpression{OfType: cty.Object(map[string]cty.Type{"extra": cty.DynamicPseudoType, "name": cty.String, "zone": cty.String})}
		}},
		NC{"LiteralType{object_optional}", func() schema.Constraint {
			return schema.LiteralType{Type: cty.ObjectWithOptionalAttrs(map[string]cty.Type{"name": cty.String, "size": cty.Number}, []string{"size"})}
		}},
		NC{"Any{object_optional}", func() schema.Constraint {
			return schema.AnyExpression{OfType: cty.ObjectWithOptionalAttrs(map[string]cty.Type{"name": cty.String, "size": cty.Number}, []string{"size"})}
		}},
		NC{"Any{map_object}", func() schema.Constraint { return schema.AnyExpression{OfType: cty.Map(objType)} }},
		NC{"Reference{OfType string,OfScopeId sa}", func() schema.Constraint { return schema.Reference{OfType: cty.String, OfScopeId: lang.ScopeId("sa")} }},
	)
	for _, nt := range litTypes[4:9] {
		nt := nt
		out = append(out, NC{"Any{" + nt.Name + ",skip}", func() schema.Constraint {
			return schema.AnyExpression{OfType: nt.T, SkipLiteralComplexTypes: true}
		}})
	}
	return out
}

// reps is one representative leaf per kind, used for the inner level at depth 2.
func reps() []NC {
	l := Leaves()
	want := map[string]bool{
		"LiteralType{string}": true, "LiteralType{bool}": true, "LiteralValue{\"foo\"}": true, "Keyword{kwd}": true,
		"TypeDeclaration": true, "Reference{OfType string}": true, "Any{string}": true, "Any{object}": true,
	}
	var out []NC
	for _, c := range l {
		if want[c.Name] {
			out = append(out, c)
		}
	}
	return out
}

func objAttrs(a, b NC) schema.ObjectAttributes {
	return schema.ObjectAttributes{
		"foo": {Constraint: a.Mk(), IsRequired: true, Description: lang.Markdown("foo attr")},
		"bar": {Constraint: b.Mk(), IsOptional: true},
	}
}

// composites builds every composite over the given inner constraints.
func composites(inner []NC, partner NC) []NC {
	var out []NC
	for _, e := range inner {
		e := e
		out = append(out,
			NC{"List{" + e.Name + "}", func() schema.Constraint { return schema.List{Elem: e.Mk(), Description: lang.Markdown("a list")} }},
			NC{"Set{" + e.Name + "}", func() schema.Constraint { return schema.Set{Elem: e.Mk()} }},
			NC{"Map{" + e.Name + "}", func() schema.Constraint { return schema.Map{Elem: e.Mk(), Name: "a map"} }},
			NC{"Map{" + e.Name + ",interp}", func() schema.Constraint { return schema.Map{Elem: e.Mk(), AllowInterpolatedKeys: true} }},
			NC{"Tuple{" + e.Name + "," + partner.Name + "}", func() schema.Constraint {
				return schema.Tuple{Elems: []schema.Constraint{e.Mk(), partner.Mk()}}
			}},
			NC{"Object{foo:" + e.Name + ",bar:" + partner.Name + "}", func() schema.Constraint {
				return schema.Object{Attributes: objAttrs(e, partner), Name: "an obj", Description: lang.Markdown("obj desc")}
			}},
			NC{"Object{foo:" + e.Name + ",bar:" + partner.Name + ",interp}", func() schema.Constraint {
				return schema.Object{Attributes: objAttrs(e, partner), AllowInterpolatedKeys: true}
			}},
			NC{"OneOf{" + e.Name + "," + partner.Name + "}", func() schema.Constraint {
				return schema.OneOf{e.Mk(), partner.Mk()}
			}},
			NC{"OneOf{" + partner.Name + "," + e.Name + "}", func() schema.Constraint {
				return schema.OneOf{partner.Mk(), e.Mk()}
			}},
		)
	}
	return out
}

// Degenerate forms that the schema package accepts.
func degenerates() []NC {
	return []NC{
		{"List{nil}", func() schema.Constraint { return schema.List{} }},
		{"Set{nil}", func() schema.Constraint { return schema.Set{} }},
		{"Map{nil}", func() schema.Constraint { return schema.Map{} }},
		{"Tuple{[]}", func() schema.Constraint { return schema.Tuple{} }},
		{"Object{}", func() schema.Constraint { return schema.Object{} }},
		{"OneOf{}", func() schema.Constraint { return schema.OneOf{} }},
		{"List{Any{string},min1,max2}", func() schema.Constraint {
			return schema.List{Elem: schema.AnyExpression{OfType: cty.String}, MinItems: 1, MaxItems: 2}
		}},
		{"Set{LiteralType{string},min2}", func() schema.Constraint { return schema.Set{Elem: schema.LiteralType{Type: cty.String}, MinItems: 2} }},
		{"Map{LiteralType{string},min1,max1}", func() schema.Constraint {
			return schema.Map{Elem: schema.LiteralType{Type: cty.String}, MinItems: 1, MaxItems: 1}
		}},
		{"OneOf{LiteralValue{\"a\"},LiteralValue{\"b\"},LiteralValue{1},Keyword{kwd}}", func() schema.Constraint {
			return schema.OneOf{schema.LiteralValue{Value: cty.StringVal("a")}, schema.LiteralValue{Value: cty.StringVal("b")}, schema.LiteralValue{Value: cty.NumberIntVal(1)}, schema.Keyword{Keyword: "kwd"}}
		}},
		{"Object{\u00e9t\u00e9:LiteralType{string},\u00e9cole:Any{string},foo:LiteralType{bool}}", func() schema.Constraint {
			return schema.Object{Attributes: schema.ObjectAttributes{
				"\u00e9t\u00e9": {Constraint: schema.LiteralType{Type: cty.String}, IsOptional: true},
				"\u00e9cole":    {Constraint: schema.AnyExpression{OfType: cty.String}, IsOptional: true},
				"foo":           {Constraint: schema.LiteralType{Type: cty.Bool}, IsOptional: true},
				// names that are not in normal form C: a decomposed accent (3 bytes, 2 when composed), KELVIN SIGN
				"e\u0301lan":  {Constraint: schema.LiteralType{Type: cty.String}, IsOptional: true},
				"\u212aelvin": {Constraint: schema.LiteralType{Type: cty.String}, IsOptional: true}}}
		}},
		// a literal collection between two pre-fillable siblings (its own text has no tab stops, the numbering goes on behind it)
		{"Object{req name,protocols:LiteralValue{list},zone}", func() schema.Constraint {
			return schema.Object{Attributes: schema.ObjectAttributes{
				"name":      {Constraint: schema.LiteralType{Type: cty.String}, IsRequired: true},
				"protocols": {Constraint: schema.LiteralValue{Value: cty.ListVal([]cty.Value{cty.StringVal("tcp"), cty.StringVal("udp")})}, IsRequired: true},
				"zone":      {Constraint: schema.LiteralType{Type: cty.String}, IsRequired: true}}}
		}},
		{"Tuple{LiteralType{string},LiteralValue{set},LiteralType{number}}", func() schema.Constraint {
			return schema.Tuple{Elems: []schema.Constraint{schema.LiteralType{Type: cty.String},
				schema.LiteralValue{Value: cty.SetVal([]cty.Value{cty.StringVal("a"), cty.StringVal("b")})}, schema.LiteralType{Type: cty.Number}}}
		}},
		// tuples whose later elements cannot be pre-filled, behind one that can
		{"Tuple{LiteralType{string},Reference{OfType string}}", func() schema.Constraint {
			return schema.Tuple{Elems: []schema.Constraint{schema.LiteralType{Type: cty.String}, schema.Reference{OfType: cty.String}}}
		}},
		{"Tuple{List{LiteralType{string}},TypeDeclaration,LiteralType{bool}}", func() schema.Constraint {
			return schema.Tuple{Elems: []schema.Constraint{schema.List{Elem: schema.LiteralType{Type: cty.String}}, schema.TypeDeclaration{}, schema.LiteralType{Type: cty.Bool}}}
		}},
		{"Map{Tuple{LiteralType{string},Reference{OfType string}}}", func() schema.Constraint {
			return schema.Map{Elem: schema.Tuple{Elems: []schema.Constraint{schema.LiteralType{Type: cty.String}, schema.Reference{OfType: cty.String}}}}
		}},
		{"Object{foo:LiteralType{string},bar:Tuple{LiteralType{string},Reference{OfType string}},baz:LiteralType{number}}", func() schema.Constraint {
			return schema.Object{Attributes: schema.ObjectAttributes{
				"foo": {Constraint: schema.LiteralType{Type: cty.String}, IsRequired: true},
				"bar": {Constraint: schema.Tuple{Elems: []schema.Constraint{schema.LiteralType{Type: cty.String}, schema.Reference{OfType: cty.String}}}, IsRequired: true},
				"baz": {Constraint: schema.LiteralType{Type: cty.Number}, IsRequired: true}}}
		}},
		// collections of "any" inside an object (elements without a hover / completion representation)
		{"LiteralType{object_map_any}", func() schema.Constraint {
			return schema.LiteralType{Type: cty.Object(map[string]cty.Type{"name": cty.String, "tags": cty.Map(cty.DynamicPseudoType), "l": cty.List(cty.DynamicPseudoType)})}
		}},
		{"Object{foo:Map{LiteralValue{null}},bar:List{LiteralType{dynamic}},baz:Set{LiteralType{dynamic}}}", func() schema.Constraint {
			return schema.Object{Attributes: schema.ObjectAttributes{
				"foo": {Constraint: schema.Map{Elem: schema.LiteralValue{Value: cty.NullVal(cty.String)}}, IsOptional: true},
				"bar": {Constraint: schema.List{Elem: schema.LiteralType{Type: cty.DynamicPseudoType}}, IsOptional: true},
				"baz": {Constraint: schema.Set{Elem: schema.LiteralType{Type: cty.DynamicPseudoType}}, IsOptional: true}}}
		}},
		{"OneOf{OneOf{Any{string}},List{OneOf{LiteralType{bool},Reference{OfType string}}}}", func() schema.Constraint {
			return schema.OneOf{schema.OneOf{schema.AnyExpression{OfType: cty.String}}, schema.List{Elem: schema.OneOf{schema.LiteralType{Type: cty.Bool}, schema.Reference{OfType: cty.String}}}}
		}},
	}
}

// Constraints returns the constraint universe to the given depth (1 or 2), dropping those the
// schema package rejects.
func Constraints(depth int) []NC {
	leaves := Leaves()
	boolLeaf := leaves[2]
	all := append([]NC{}, leaves...)
	d1 := composites(leaves, boolLeaf)
	all = append(all, d1...)
	all = append(all, degenerates()...)
	if depth >= 2 {
		// inner level restricted to one representative per kind
		inner := composites(reps(), boolLeaf)
		all = append(all, composites(inner, leaves[0])...)
	}
	var out []NC
	seen := map[string]bool{}
	for _, c := range all {
		if seen[c.Name] {
			continue
		}
		seen[c.Name] = true
		if v, ok := c.Mk().(schema.Validatable); ok {
			if v.Validate() != nil {
				continue
			}
		}
		out = append(out, c)
	}
	return out
}
