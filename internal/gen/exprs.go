package gen

import (
	"fmt"
	"strings"
)

// Typed expression generator (C10): every generated expression is well typed for its target
// type and carries the list of references written in it (address text and exact byte range),
// which is the generator's ground truth.

// Ref is one written reference.
type Ref struct {
	Addr       string // address as lang.Address.String() renders it
	Start, End int    // byte range within the expression text
	Iterator   bool   // a for-expression iterator variable (still a written traversal)
	Self       bool   // self.* reference
}

// TExpr is a generated expression text with its references.
type TExpr struct {
	Text string
	Refs []Ref
	Desc string
}

type exprGen struct {
	n    int // counter for unique reference names
	self bool
}

func (g *exprGen) fresh() string { g.n++; return fmt.Sprintf("a%d", g.n) }

// builder concatenates text fragments and sub-expressions, shifting their ranges.
type builder struct {
	sb   strings.Builder
	refs []Ref
}

func (b *builder) s(t string) *builder { b.sb.WriteString(t); return b }
func (b *builder) e(x TExpr) *builder {
	off := b.sb.Len()
	for _, r := range x.Refs {
		r.Start += off
		r.End += off
		b.refs = append(b.refs, r)
	}
	b.sb.WriteString(x.Text)
	return b
}
func (b *builder) done(desc string) TExpr {
	return TExpr{Text: b.sb.String(), Refs: b.refs, Desc: desc}
}

func ref(text, addr string) TExpr {
	return TExpr{Text: text, Refs: []Ref{{Addr: addr, Start: 0, End: len(text), Self: strings.HasPrefix(text, "self.")}}, Desc: "ref"}
}

// refForms: the address forms a traversal can take.
func (g *exprGen) refForms() []TExpr {
	n := g.fresh()
	out := []TExpr{
		ref("decl."+n, "decl."+n),
		ref(n, n),
		ref("decl."+n+"[0]", "decl."+n+"[0]"),
		ref("decl."+n+"[\"k\"]", "decl."+n+"[\"k\"]"),
		ref("decl."+n+".b.c", "decl."+n+".b.c"),
	}
	if g.self {
		out = append(out, ref("self."+n, "self."+n))
	}
	return out
}

func lit(t string) TExpr { return TExpr{Text: t, Desc: "lit"} }

// selfOr returns a self.* reference where the generator produces them, else the given reference.
func selfOr(g *exprGen, alt TExpr) TExpr {
	if !g.self {
		return alt
	}
	forms := g.refForms()
	return forms[len(forms)-1]
}

// Gen returns the expressions of type typ to the given depth. wide=false keeps one
// representative sub-expression per slot (used below the top level).
func (g *exprGen) Gen(typ string, depth int, wide bool) []TExpr {
	var out []TExpr
	refs := g.refForms()
	if !wide {
		refs = refs[:1]
	}
	out = append(out, refs...)
	sub := func(t string) TExpr {
		if depth <= 1 {
			return g.refForms()[0]
		}
		xs := g.Gen(t, depth-1, false)
		// the last production of the smaller depth is the most structured one
		return xs[len(xs)-1]
	}
	subRef := func() TExpr { return g.refForms()[0] }
	switch typ {
	case "string":
		out = append(out, lit(`"s"`))
		if depth >= 1 {
			out = append(out,
				new(builder).s(`"p${`).e(sub("string")).s(`}s"`).done("template"),
				new(builder).s(`"${`).e(sub("string")).s(`}"`).done("template-wrap"),
				new(builder).s(`"x-${`).e(subRef()).s(`}-${`).e(subRef()).s(`}"`).done("template-2"),
				new(builder).s("<<EOT\nline ${").e(subRef()).s("}\nEOT\n").done("heredoc"),
				new(builder).s(`fn(`).e(sub("string")).s(`)`).done("call"),
				new(builder).s(`provider::aws::xy(`).e(subRef()).s(`)`).done("namespaced-call"),
				new(builder).e(sub("bool")).s(` ? `).e(sub("string")).s(` : `).e(subRef()).done("conditional"),
				new(builder).s(`(`).e(sub("string")).s(`)`).done("parens"),
				new(builder).e(subRef()).s(`[`).e(subRef()).s(`]`).done("index-expr"),
				// references behind a full splat and behind an attribute splat: in index keys of the per-item part
				new(builder).e(subRef()).s(`[*].tags[`).e(subRef()).s(`]`).done("splat-then-index-key"),
				new(builder).e(subRef()).s(`[*].a[`).e(subRef()).s(`].b[`).e(subRef()).s(`]`).done("splat-then-two-index-keys"),
				new(builder).e(subRef()).s(`.*.tags[`).e(subRef()).s(`]`).done("attr-splat-then-index-key"),
				new(builder).e(subRef()).s(`[`).e(subRef()).s(`][*].id`).done("index-key-then-splat"),
				// a self.* traversal followed by another reference inside expressions only the generic fallback handles
				new(builder).e(selfOr(g, subRef())).s(`[`).e(subRef()).s(`]`).done("self-indexed-by-reference"),
				new(builder).e(subRef()).s(`[`).e(selfOr(g, subRef())).s(`[*].id[`).e(subRef()).s(`]]`).done("self-splat-in-index-key"),
				// a call whose declared return type does not convert to the type expected here: its arguments are
				// written references all the same (0.11-style "${split(...)}", or a plainly mistyped value)
				new(builder).s("\"${vf(").e(subRef()).s(", ").e(subRef()).s(")}\"").done("wrapped-call-returning-list"),
				new(builder).s(`vf(`).e(subRef()).s(`, `).e(subRef()).s(`)`).done("call-of-inconvertible-type"),
				// a call of a function the path context does not know: its arguments are still written references
				new(builder).s(`nosuchfn(`).e(subRef()).s(`)`).done("unknown-call"),
				new(builder).s(`fn(nosuchfn(`).e(subRef()).s(`, `).e(subRef()).s(`))`).done("unknown-call-nested"),
				new(builder).s(`"%{ if `).e(subRef()).s(` }a%{ else }${`).e(subRef()).s(`}%{ endif }"`).done("template-directive"),
			)
		}
	case "number":
		out = append(out, lit(`42`))
		if depth >= 1 {
			out = append(out,
				new(builder).e(sub("number")).s(` + `).e(subRef()).done("binary"),
				new(builder).s(`-`).e(subRef()).done("unary"),
				new(builder).s(`fn2(`).e(sub("number")).s(`, `).e(subRef()).s(`)`).done("call-2"),
				new(builder).e(subRef()).s(` * (`).e(subRef()).s(` - 1)`).done("binary-parens"),
			)
		}
	case "bool":
		out = append(out, lit(`true`))
		if depth >= 1 {
			out = append(out,
				new(builder).e(sub("number")).s(` == `).e(subRef()).done("compare"),
				new(builder).s(`!`).e(sub("bool")).done("not"),
				new(builder).e(subRef()).s(` && `).e(subRef()).done("and"),
				new(builder).s(`ns::fn(`).e(sub("string")).s(`)`).done("call-dynamic-param"),
				new(builder).s(`vf(`).e(subRef()).s(`, `).e(subRef()).s(`)`).done("call-of-inconvertible-type"),
			)
		}
	case "list":
		out = append(out, lit(`["s"]`))
		if depth >= 1 {
			out = append(out,
				new(builder).s(`[`).e(sub("string")).s(`, `).e(subRef()).s(`]`).done("tuple-cons"),
				new(builder).s("[\n  ").e(subRef()).s(",\n  ").e(subRef()).s(",\n]").done("tuple-cons-multiline"),
				new(builder).s(`vf(`).e(subRef()).s(`, `).e(subRef()).s(`, `).e(subRef()).s(`)`).done("variadic-call"),
				func() TExpr {
					// the same address written twice: two references, two origins
					r := subRef()
					return new(builder).s(`[`).e(r).s(`, `).e(subRef()).s(`, `).e(r).s(`]`).done("repeated-reference")
				}(),
				func() TExpr {
					r := subRef()
					return new(builder).s(`[for x in [`).e(r).s(`, `).e(subRef()).s(`, `).e(r).s(`] : "c"]`).done("for-over-repeated-references")
				}(),
				// collection literals reached through a conditional or parentheses (not as the value itself)
				new(builder).e(subRef()).s(` ? [`).e(subRef()).s(`] : [`).e(subRef()).s(`, "x"]`).done("conditional-of-tuples"),
				new(builder).s(`([`).e(subRef()).s(`, `).e(subRef()).s(`])`).done("parenthesised-tuple"),
				func() TExpr {
					it := TExpr{Text: "v", Refs: []Ref{{Addr: "v", Start: 0, End: 1, Iterator: true}}}
					return new(builder).s(`[for v in `).e(subRef()).s(` : `).e(it).s(` if `).e(it).s(` != `).e(subRef()).s(`]`).done("for-list")
				}(),
			)
		}
	case "map":
		out = append(out, lit(`{ k = "s" }`))
		if depth >= 1 {
			out = append(out,
				new(builder).s(`{ k = `).e(sub("string")).s(`, l = `).e(subRef()).s(` }`).done("object-cons"),
				new(builder).s(`{ (`).e(subRef()).s(`) = `).e(subRef()).s(` }`).done("parenthesised-key"),
				new(builder).s("{ \"${").e(subRef()).s("}-a\" = \"s\" }").done("template-key"),
				new(builder).s("{ \"${").e(subRef()).s("}\" = \"s\" }").done("template-wrap-key"),
				func() TExpr {
					r := subRef()
					return new(builder).s(`{ k = `).e(r).s(`, l = `).e(r).s(` }`).done("repeated-reference-in-object")
				}(),
				func() TExpr {
					r := subRef()
					k := TExpr{Text: "k", Refs: []Ref{{Addr: "k", Start: 0, End: 1, Iterator: true}}}
					return new(builder).s(`{for k, v in { one = `).e(r).s(`, two = `).e(r).s(` } : `).e(k).s(` => "c"}`).done("for-over-repeated-object")
				}(),
				new(builder).s("{\n  k = ").e(subRef()).s("\n  \"q\" = ").e(subRef()).s("\n}").done("object-cons-multiline"),
				func() TExpr {
					k := TExpr{Text: "k", Refs: []Ref{{Addr: "k", Start: 0, End: 1, Iterator: true}}}
					v := TExpr{Text: "v", Refs: []Ref{{Addr: "v", Start: 0, End: 1, Iterator: true}}}
					return new(builder).s(`{for k, v in `).e(subRef()).s(` : `).e(k).s(` => `).e(v).s(`}`).done("for-object")
				}(),
			)
		}
	case "object":
		out = append(out, lit(`{ foo = "s", bar = true }`))
		if depth >= 1 {
			out = append(out,
				new(builder).s(`{ foo = `).e(sub("string")).s(`, bar = `).e(sub("bool")).s(` }`).done("object-known-keys"),
				new(builder).s(`objf(`).e(sub("map")).s(`)`).done("call-returning-object"),
			)
		}
	case "tuple":
		out = append(out, lit(`["s", true]`))
		if depth >= 1 {
			out = append(out, new(builder).s(`[`).e(sub("string")).s(`, `).e(sub("bool")).s(`]`).done("tuple-typed"))
		}
	}
	return out
}

// TypedExprs returns the typed expression menu for C10.
func TypedExprs(typ string, depth int, self bool) []TExpr {
	g := &exprGen{self: self}
	return g.Gen(typ, depth, true)
}

// Compose concatenates string fragments and expressions (ranges shifted).
func Compose(parts ...any) TExpr {
	b := new(builder)
	desc := ""
	for _, p := range parts {
		switch x := p.(type) {
		case string:
			b.s(x)
		case TExpr:
			b.e(x)
			if desc == "" {
				desc = x.Desc
			}
		}
	}
	return b.done(desc)
}

// Mute returns the expression text without its references (placed where the constraint does
// not admit references: the generator expects none there).
func Mute(e TExpr) TExpr { return TExpr{Text: e.Text, Desc: e.Desc} }
