package gen

// JSONValueTexts is the menu of JSON value texts placed under every one-constraint body: strings
// with and without templates (single interpolation, surrounded, evaluating to null / number /
// collection, unterminated, directives, legacy bare traversals, type expressions), numbers,
// booleans, null, arrays and objects (nested, with template keys, duplicate and empty keys).
func JSONValueTexts() []string {
	return []string{
		`"foo"`, `""`, `"${decl.foo}"`, `"a${decl.foo.bar}b"`, `"${true ? null : \"x\"}"`, `"${null}"`, `"${1}"`, `"${true}"`, `"${"`, `"decl.foo"`, `"decl.foo.bar"`,
		`"${fn(\"a\")}"`, `"${fn(decl.foo)}"`, `"${[decl.foo]}"`, `"${{a = decl.foo}}"`, `"%{ if true }a%{ endif }"`, `"${decl.foo[0]}"`, `"${decl.foo[\"k\"]}"`, `"${decl.foo[*].x}"`,
		`"kwd"`, `"string"`, `"list(string)"`, `"${list(string)}"`, `"${string}"`, `"object({a=string})"`,
		`"${count.index}"`, `"${each.key}"`, `"${self.attr2}"`, `"count.index"`, `"provider::aws::x"`, `"${provider::aws::xy(\"a\")}"`, `"fü€"`, `"a\nb"`,
		`1`, `4.2`, `-1`, `1e3`, `true`, `false`, `null`,
		`[]`, `["a"]`, `["a", "b"]`, `["${decl.foo}", 1]`, `[["a"]]`, `[null]`, `[{"foo": "x"}]`, `[true, "a"]`, `["a", "b", "c"]`, `[1, 2, 3]`,
		`{}`, `{"foo": "x"}`, `{"foo": "x", "bar": true}`, `{"${decl.foo}": 1}`, `{"${true ? null : \"x\"}": 1}`, `{"foo": {"foo": "y"}}`, `{"foo": ["a"]}`, `{"foo": null}`,
		`{"foo": "x", "foo": "y"}`, `{"": 1}`, `{"k": "${decl.foo}", "j": "${decl.foo.bar}"}`, `{"foo": "${decl.foo}", "bar": "${true}"}`, `{"a.b": 1}`, `{"${1}": 1}`, `{"(foo)": 1}`,
	}
}

// JSONConsSeeds renders a JSON value text into the JSON counterparts of the cons seed files.
func JSONConsSeeds(v string) []string {
	return []string{
		`{"attr": ` + v + `}` + "\n",
		`{"decl": {"foo": {"bar": "x"}}, "attr2": ` + v + `}` + "\n",
		`{"blk": {"count": 2, "attr": ` + v + `, "nb": {"attr": ` + v + `}}}` + "\n",
		`{"blk": [{"attr": ` + v + `}, {"attr": ` + v + `, "nb": [{"attr": ` + v + `}]}], "attr": ` + v + `}` + "\n",
	}
}
