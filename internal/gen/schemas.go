package gen

import (
	"fmt"
	"sort"

	"github.com/hashicorp/hcl-lang/lang"
	"github.com/hashicorp/hcl-lang/schema"
	"github.com/hashicorp/hcl/v2"
	"github.com/zclconf/go-cty/cty"

	"verif/internal/world"
)

// Entry is one catalogue schema with seed files that exercise it.
type Entry struct {
	ID    string
	Mk    func() *schema.BodySchema
	Seeds []string // seed file texts (native syntax)
	// Family: "cons" (one constraint under test) or "struct" (structure template)
	Family string
	// Value position info for cons family: the seeds are built from value texts.
	Cons *NC
	// Hooks: world registers completion hooks returning this many items (-1 none)
	Hooks int
	// Extra paths (cross-path worlds); path 0 is always the entry's own.
	Extra []world.PathSpec
	// Companion: further files of the entry's own path, present in every world built from it.
	Companion []world.FileSpec
}

func ext(count, forEach, dyn, self bool) *schema.BodyExtensions {
	if !count && !forEach && !dyn && !self {
		return nil
	}
	return &schema.BodyExtensions{Count: count, ForEach: forEach, DynamicBlocks: dyn, SelfRefs: self}
}

// ExtSubsets enumerates every subset of {Count, ForEach, DynamicBlocks, SelfRefs}.
func ExtSubsets() []*schema.BodyExtensions {
	var out []*schema.BodyExtensions
	for m := 0; m < 16; m++ {
		out = append(out, ext(m&1 != 0, m&2 != 0, m&4 != 0, m&8 != 0))
	}
	return out
}

func extName(e *schema.BodyExtensions) string {
	if e == nil {
		return "-"
	}
	s := ""
	if e.Count {
		s += "C"
	}
	if e.ForEach {
		s += "F"
	}
	if e.DynamicBlocks {
		s += "D"
	}
	if e.SelfRefs {
		s += "S"
	}
	return s
}

// declBlock is the common addressable declaration every cons-family schema has, so that
// references in value texts (decl.foo, decl.foo.bar) can resolve.
func declBlock() *schema.BlockSchema {
	return &schema.BlockSchema{
		Labels: []*schema.LabelSchema{{Name: "name"}},
		Address: &schema.BlockAddrSchema{
			Steps:       schema.Address{schema.StaticStep{Name: "decl"}, schema.LabelStep{Index: 0}},
			AsReference: true,
			BodyAsData:  true,
			InferBody:   true,
			ScopeId:     lang.ScopeId("sa"),
		},
		Body: &schema.BodySchema{
			Attributes: map[string]*schema.AttributeSchema{
				"bar": {Constraint: schema.AnyExpression{OfType: cty.String}, IsOptional: true},
				"id":  {Constraint: schema.LiteralType{Type: cty.Number}, IsOptional: true},
			},
		},
	}
}

// ConsBody builds the schema that puts constraint c under test: at the root (`attr`, and
// `attr2` which is also addressable) and one block deep under the extension subset e.
func ConsBody(c NC, e *schema.BodyExtensions) func() *schema.BodySchema {
	return func() *schema.BodySchema {
		return &schema.BodySchema{
			Attributes: map[string]*schema.AttributeSchema{
				"attr": {Constraint: c.Mk(), IsOptional: true, Description: lang.Markdown("attr desc")},
				"attr2": {Constraint: c.Mk(), IsOptional: true,
					Address: &schema.AttributeAddrSchema{
						Steps:       schema.Address{schema.StaticStep{Name: "at"}, schema.AttrNameStep{}},
						AsReference: true, AsExprType: true, ScopeId: lang.ScopeId("sa"), FriendlyName: "at",
					},
					CompletionHooks: lang.CompletionHooks{{Name: world.HookName}},
				},
			},
			Blocks: map[string]*schema.BlockSchema{
				"decl": declBlock(),
				"blk": {
					Description: lang.Markdown("blk desc"),
					Body: &schema.BodySchema{
						Extensions: e.Copy(),
						Attributes: map[string]*schema.AttributeSchema{
							"attr":  {Constraint: c.Mk(), IsOptional: true},
							"attr2": {Constraint: schema.LiteralType{Type: cty.String}, IsOptional: true},
						},
						Blocks: map[string]*schema.BlockSchema{
							"nb": {Body: &schema.BodySchema{Attributes: map[string]*schema.AttributeSchema{
								"attr": {Constraint: c.Mk(), IsOptional: true},
							}}},
						},
					},
					Address: &schema.BlockAddrSchema{
						Steps:       schema.Address{schema.StaticStep{Name: "blk"}},
						BodyAsData:  true,
						InferBody:   true,
						BodySelfRef: true,
					},
				},
			},
		}
	}
}

// ConsSeeds returns the seed files for the cons family: the value text at the root, after a
// declaration, with odd spacing, and inside the block.
func ConsSeeds(v string) []string {
	return []string{
		"attr = " + v + "\n",
		"decl \"foo\" {\n  bar = \"x\"\n}\nattr2 = " + v + "\n",
		"attr =  " + v,
		"blk {\n  count = 2\n  attr = " + v + "\n  nb {\n    attr = " + v + "\n  }\n}\n",
		// a value inside a block that can see declarations of the same file
		"decl \"foo\" {\n  bar = \"x\"\n  id = 1\n}\nblk {\n  attr = " + v + "\n}\n",
	}
}

func strAttr(mod func(a *schema.AttributeSchema)) *schema.AttributeSchema {
	a := &schema.AttributeSchema{Constraint: schema.LiteralType{Type: cty.String}, IsOptional: true}
	if mod != nil {
		mod(a)
	}
	return a
}

func depKey(labels []schema.LabelDependent, attrs []schema.AttributeDependent) schema.SchemaKey {
	return schema.NewSchemaKey(schema.DependencyKeys{Labels: labels, Attributes: attrs})
}

func lbl(i int, v string) schema.LabelDependent { return schema.LabelDependent{Index: i, Value: v} }
func attrDep(n string, v cty.Value) schema.AttributeDependent {
	return schema.AttributeDependent{Name: n, Expr: schema.ExpressionValue{Static: v}}
}
func attrDepAddr(n string, a lang.Address) schema.AttributeDependent {
	return schema.AttributeDependent{Name: n, Expr: schema.ExpressionValue{Address: a}}
}

// SentinelRange is the impossible range schemas use for caller-supplied ranges (exempt in C02).
var SentinelRange = hcl.Range{Filename: "\x00schema-supplied", Start: hcl.Pos{Line: 7, Column: 7, Byte: 777}, End: hcl.Pos{Line: 7, Column: 9, Byte: 779}}

func markerBody(marker string, mod func(b *schema.BodySchema)) *schema.BodySchema {
	b := &schema.BodySchema{
		Detail:      "detail-" + marker,
		Description: lang.Markdown("body " + marker),
		Attributes: map[string]*schema.AttributeSchema{
			marker: {Constraint: schema.LiteralType{Type: cty.String}, IsOptional: true, Description: lang.Markdown("marker " + marker),
				SemanticTokenModifiers: lang.SemanticTokenModifiers{lang.SemanticTokenModifier("mod-" + marker)}},
		},
	}
	if mod != nil {
		mod(b)
	}
	return b
}

// Structures returns the structure-template catalogue.
func Structures() []Entry {
	var out []Entry
	add := func(id string, mk func() *schema.BodySchema, seeds ...string) {
		out = append(out, Entry{ID: "S:" + id, Mk: mk, Seeds: seeds, Family: "struct", Hooks: -1})
	}

	// --- attribute flags ---------------------------------------------------------------------
	add("attrs-flags", func() *schema.BodySchema {
		return &schema.BodySchema{
			Attributes: map[string]*schema.AttributeSchema{
				"req":   {Constraint: schema.LiteralType{Type: cty.String}, IsRequired: true, Description: lang.Markdown("req d")},
				"opt":   {Constraint: schema.LiteralType{Type: cty.Number}, IsOptional: true},
				"comp":  {Constraint: schema.LiteralType{Type: cty.String}, IsComputed: true},
				"oc":    {Constraint: schema.LiteralType{Type: cty.Bool}, IsOptional: true, IsComputed: true},
				"dep":   {Constraint: schema.LiteralType{Type: cty.String}, IsOptional: true, IsDeprecated: true},
				"sens":  {Constraint: schema.LiteralType{Type: cty.String}, IsOptional: true, IsSensitive: true},
				"wo":    {Constraint: schema.LiteralType{Type: cty.String}, IsOptional: true, IsWriteOnly: true},
				"dflt":  {Constraint: schema.LiteralType{Type: cty.String}, IsOptional: true, DefaultValue: schema.DefaultValue{Value: cty.StringVal("dv")}},
				"clash": {Constraint: schema.LiteralType{Type: cty.String}, IsOptional: true},
			},
			Blocks: map[string]*schema.BlockSchema{
				"clash": {Body: &schema.BodySchema{}},
				"resource": {Labels: []*schema.LabelSchema{{Name: "type"}, {Name: "name"}}, Body: &schema.BodySchema{
					Attributes: map[string]*schema.AttributeSchema{
						"wo": {Constraint: schema.LiteralType{Type: cty.String}, IsOptional: true, IsWriteOnly: true},
						"x":  {Constraint: schema.LiteralType{Type: cty.String}, IsOptional: true},
					},
					Blocks: map[string]*schema.BlockSchema{"in": {Body: &schema.BodySchema{Attributes: map[string]*schema.AttributeSchema{
						"wo2": {Constraint: schema.LiteralType{Type: cty.String}, IsOptional: true, IsWriteOnly: true}}}}},
				}},
			},
		}
	},
		"req = \"a\"\nopt = 1\n",
		"opt = 1\ndep = \"x\"\nunknown = 1\n\n",
		"req = \"a\"\nwo = \"w\"\nclash = \"c\"\nclash {\n}\nresource \"t\" \"n\" {\n  wo = \"s\"\n  in {\n    wo2 = \"z\"\n  }\n}\n",
		"re\n",
		"resource {\n  wo = \"x\"\n}\n",
	)

	// resource-named block without labels (magic name; write-only collection indexes Labels[0])
	add("resource-nolabels", func() *schema.BodySchema {
		return &schema.BodySchema{Blocks: map[string]*schema.BlockSchema{
			"resource": {Body: &schema.BodySchema{Attributes: map[string]*schema.AttributeSchema{
				"w": {Constraint: schema.LiteralType{Type: cty.String}, IsOptional: true, IsWriteOnly: true}}}},
		}}
	}, "resource {\n  w = \"x\"\n}\n", "resource \"a\" {\n  w = \"x\"\n}\n")

	// --- AnyAttribute ------------------------------------------------------------------------
	add("anyattr", func() *schema.BodySchema {
		return &schema.BodySchema{
			AnyAttribute: &schema.AttributeSchema{Constraint: schema.AnyExpression{OfType: cty.String}, IsOptional: true,
				Description: lang.Markdown("any attr"),
				Address: &schema.AttributeAddrSchema{Steps: schema.Address{schema.StaticStep{Name: "local"}, schema.AttrNameStep{}},
					AsReference: true, AsExprType: true, ScopeId: lang.ScopeId("sa")}},
			Blocks: map[string]*schema.BlockSchema{"locals": {Body: &schema.BodySchema{
				AnyAttribute: &schema.AttributeSchema{Constraint: schema.AnyExpression{OfType: cty.DynamicPseudoType}, IsOptional: true,
					Address: &schema.AttributeAddrSchema{Steps: schema.Address{schema.StaticStep{Name: "local"}, schema.AttrNameStep{}},
						AsReference: true, AsExprType: true, ScopeId: lang.ScopeId("sa")}}}}},
		}
	},
		"a = \"x\"\nb = local.a\n",
		"locals {\n  x = { k = [1, 2] }\n  y = local.x.k[0]\n}\n",
		"locals {\n  \n}\n",
		// legacy index syntax (a dot and a number) on a list that has element targets
		"locals {\n  x = { k = [1, 2, 3, 4, 5, 6, 7, 8, 9, 10, 11] }\n  y = local.x.k.0\n  z = local.x.k.10\n  w = local.x.k[1]\n}\n",
	)

	// --- wide bodies (leave the 12-element insertion-sort regime) ------------------------------
	for _, n := range []int{3, 8, 14} {
		n := n
		seed := ""
		for i := 0; i < n; i++ {
			seed += fmt.Sprintf("a%02d = \"v%d\"\n", i, i)
		}
		for i := 0; i < n && i < 3; i++ {
			seed += fmt.Sprintf("w%02d {\n}\n", i)
		}
		add(fmt.Sprintf("wide-%d", n), func() *schema.BodySchema {
			b := &schema.BodySchema{Attributes: map[string]*schema.AttributeSchema{}, Blocks: map[string]*schema.BlockSchema{}}
			for i := 0; i < n; i++ {
				b.Attributes[fmt.Sprintf("a%02d", i)] = &schema.AttributeSchema{
					Constraint: schema.AnyExpression{OfType: cty.String}, IsOptional: true,
					Address: &schema.AttributeAddrSchema{Steps: schema.Address{schema.StaticStep{Name: "w"}, schema.AttrNameStep{}},
						AsReference: true, AsExprType: true},
				}
				b.Blocks[fmt.Sprintf("w%02d", i)] = &schema.BlockSchema{Body: &schema.BodySchema{},
					Address: &schema.BlockAddrSchema{Steps: schema.Address{schema.StaticStep{Name: fmt.Sprintf("w%02d", i)}}, AsReference: true}}
			}
			return b
		}, seed, seed+"x = w.a00\n")
	}

	// --- blocks: labels, min/max, types, nil body, nesting -------------------------------------
	add("blocks-basic", func() *schema.BodySchema {
		leaf := func() *schema.BodySchema {
			return &schema.BodySchema{Attributes: map[string]*schema.AttributeSchema{
				"x": strAttr(nil), "y": {Constraint: schema.LiteralType{Type: cty.Number}, IsRequired: true}}}
		}
		return &schema.BodySchema{
			Blocks: map[string]*schema.BlockSchema{
				"nolabel": {Body: leaf(), MaxItems: 1, Description: lang.Markdown("nolabel d")},
				"one":     {Labels: []*schema.LabelSchema{{Name: "l0", Description: lang.Markdown("l0 d")}}, Body: leaf(), MinItems: 1},
				"two":     {Labels: []*schema.LabelSchema{{Name: "l0"}, {Name: "l1", SemanticTokenModifiers: lang.SemanticTokenModifiers{"m1"}}}, Body: leaf(), MinItems: 1, MaxItems: 2},
				"nobody":  {Labels: []*schema.LabelSchema{{Name: "l0"}}},
				"depr":    {Body: leaf(), IsDeprecated: true, SemanticTokenModifiers: lang.SemanticTokenModifiers{"mdep"}},
				"deep": {SemanticTokenModifiers: lang.SemanticTokenModifiers{"mdeep"}, Body: &schema.BodySchema{Blocks: map[string]*schema.BlockSchema{
					"mid": {Labels: []*schema.LabelSchema{{Name: "m", SemanticTokenModifiers: lang.SemanticTokenModifiers{"mlabel"}}}, SemanticTokenModifiers: lang.SemanticTokenModifiers{"mmid"}, Body: &schema.BodySchema{Blocks: map[string]*schema.BlockSchema{
						"leaf": {Body: leaf(), MaxItems: 2}}}}}}},
			},
		}
	},
		"one \"a\" {\n  y = 1\n}\ntwo \"a\" \"b\" {\n  x = \"s\"\n  y = 2\n}\n",
		"nolabel {\n  y = 1\n}\nnolabel {\n}\none {\n}\none \"a\" \"extra\" {\n  y = 1\n}\nunknown \"u\" {\n}\nnobody \"n\" {\n  z = 1\n}\n",
		"deep {\n  mid \"m\" {\n    leaf {\n      y = 1\n    }\n    leaf {\n    }\n    leaf {\n    }\n  }\n}\ndepr {\n  y = 0\n}\n",
		"two \"a\" \"b\" {\n}\ntwo \"a\" \"c\" {\n}\ntwo \"a\" \"d\" {\n}\n",
		"one \"a\" {\n  \n}\n",
		"one \"\n",
		"one \"a\" {}\n",
	)

	// --- dependent bodies keyed by label(s) ------------------------------------------------------
	add("dep-label", func() *schema.BodySchema {
		return &schema.BodySchema{Blocks: map[string]*schema.BlockSchema{
			"res": {
				Labels: []*schema.LabelSchema{{Name: "type", Description: lang.Markdown("the type label"), IsDepKey: true, Completable: true, SemanticTokenModifiers: lang.SemanticTokenModifiers{"mtype"}}, {Name: "name"}},
				Body: &schema.BodySchema{
					Attributes: map[string]*schema.AttributeSchema{"static": strAttr(nil)},
					Extensions: ext(true, true, true, false),
				},
				DependentBody: map[schema.SchemaKey]*schema.BodySchema{
					depKey([]schema.LabelDependent{lbl(0, "aws")}, nil): markerBody("m_aws", func(b *schema.BodySchema) {
						b.DocsLink = &schema.DocsLink{URL: "https://example.com/aws", Tooltip: "aws docs"}
						b.HoverURL = "https://example.com/aws/hover"
						b.Attributes["static"] = &schema.AttributeSchema{Constraint: schema.LiteralType{Type: cty.Number}, IsOptional: true, Description: lang.Markdown("overridden")}
						b.Blocks = map[string]*schema.BlockSchema{
							"nested": {Body: &schema.BodySchema{Attributes: map[string]*schema.AttributeSchema{"n": strAttr(nil)}}},
						}
					}),
					depKey([]schema.LabelDependent{lbl(0, "azure")}, nil): markerBody("m_azure", func(b *schema.BodySchema) {
						b.Extensions = ext(false, false, false, true)
					}),
					depKey([]schema.LabelDependent{lbl(0, "gcp")}, nil): markerBody("m_gcp", nil),
					// label values holding characters JSON escapes (<, >, &) or Go considers non-printable (no-break space)
					depKey([]schema.LabelDependent{lbl(0, "a&b<c>")}, nil): markerBody("m_amp", nil),
					// bodies that have only a description, only a detail, neither
					depKey([]schema.LabelDependent{lbl(0, "onlydesc")}, nil):    {Description: lang.Markdown("only a description"), Attributes: map[string]*schema.AttributeSchema{"m_od": strAttr(nil)}},
					depKey([]schema.LabelDependent{lbl(0, "onlydetail")}, nil):  {Detail: "only-a-detail", Attributes: map[string]*schema.AttributeSchema{"m_ot": strAttr(nil)}},
					depKey([]schema.LabelDependent{lbl(0, "neither")}, nil):     {Attributes: map[string]*schema.AttributeSchema{"m_no": strAttr(nil)}},
					depKey([]schema.LabelDependent{lbl(0, "no\u00a0brk")}, nil): markerBody("m_nbsp", nil),
				},
				Address: &schema.BlockAddrSchema{
					Steps:               schema.Address{schema.LabelStep{Index: 0}, schema.LabelStep{Index: 1}},
					DependentBodyAsData: true, InferDependentBody: true, DependentBodySelfRef: true, AsReference: true,
				},
			},
		}}
	},
		"res \"aws\" \"a\" {\n  m_aws = \"x\"\n  static = 1\n  nested {\n    n = \"q\"\n  }\n}\n",
		"res \"azure\" \"b\" {\n  m_azure = self.static\n  static = \"s\"\n  m_aws = \"no\"\n}\nres \"none\" \"c\" {\n  static = \"s\"\n  m_gcp = \"no\"\n}\n",
		"res \"aws\" \"a\" {\n  count = 1\n  dynamic \"nested\" {\n    for_each = []\n    content {\n      n = \"x\"\n    }\n  }\n}\n",
		"res \"a\" \"n\" {\n  \n}\n",
		"res \"\" \"n\" {\n}\n",
		"res \"aws\" {\n}\nres {\n}\n",
		"res \"aws\" \"a\" {\n}\n/* \u017e */ res \"a\" \"n\" {\n}\n",
		"res \"onlydesc\" \"a\" {\n  m_od = \"1\"\n}\nres \"onlydetail\" \"b\" {\n  m_ot = \"1\"\n}\nres \"neither\" \"c\" {\n  m_no = \"1\"\n}\n",
		"res \"a&b<c>\" \"x\" {\n  m_amp = \"1\"\n  m_aws = \"no\"\n}\nres \"no\u00a0brk\" \"y\" {\n  m_nbsp = \"1\"\n}\nres \"a&\" \"z\" {\n}\nres \"50%d_full\" \"above_80%\" {\n}\n",
	)

	// two (and three) key attributes selecting one dependent body that has a documentation link
	add("dep-2attrs-docs", func() *schema.BodySchema {
		key := func() *schema.AttributeSchema {
			return &schema.AttributeSchema{Constraint: schema.LiteralType{Type: cty.String}, IsOptional: true, IsDepKey: true}
		}
		return &schema.BodySchema{Blocks: map[string]*schema.BlockSchema{
			"data": {
				Labels: []*schema.LabelSchema{{Name: "name"}},
				Body:   &schema.BodySchema{Attributes: map[string]*schema.AttributeSchema{"kind": key(), "zone": key(), "alpha": key()}},
				DependentBody: map[schema.SchemaKey]*schema.BodySchema{
					depKey(nil, []schema.AttributeDependent{attrDep("kind", cty.StringVal("k")), attrDep("zone", cty.StringVal("z"))}): markerBody("m_kz", func(b *schema.BodySchema) {
						b.DocsLink = &schema.DocsLink{URL: "https://example.com/kz"}
					}),
					depKey(nil, []schema.AttributeDependent{attrDep("kind", cty.StringVal("k")), attrDep("zone", cty.StringVal("z")), attrDep("alpha", cty.StringVal("a"))}): markerBody("m_kza", func(b *schema.BodySchema) {
						b.DocsLink = &schema.DocsLink{URL: "https://example.com/kza"}
					}),
				},
			},
		}}
	},
		"data \"a\" {\n  zone = \"z\"\n  kind = \"k\"\n  m_kz = \"1\"\n}\ndata \"b\" {\n  kind = \"k\"\n  alpha = \"a\"\n  zone = \"z\"\n  m_kza = \"1\"\n}\n",
	)

	// declarations of structural types that convert in one direction only (narrower / wider objects, tuple vs list)
	add("conv-types", func() *schema.BodySchema {
		obj := func(names ...string) cty.Type {
			m := map[string]cty.Type{}
			for _, n := range names {
				m[n] = cty.String
			}
			return cty.Object(m)
		}
		decl := func(t cty.Type) *schema.AttributeSchema {
			return &schema.AttributeSchema{Constraint: schema.AnyExpression{OfType: t}, IsOptional: true,
				Address: &schema.AttributeAddrSchema{Steps: schema.Address{schema.StaticStep{Name: "d"}, schema.AttrNameStep{}}, AsExprType: true}}
		}
		want := func(t cty.Type) *schema.AttributeSchema {
			return &schema.AttributeSchema{Constraint: schema.AnyExpression{OfType: t}, IsOptional: true}
		}
		// (declarations at the root, the consuming attributes inside a block: a declaration of the body the
		// cursor is in is never offered)
		return &schema.BodySchema{Attributes: map[string]*schema.AttributeSchema{
			"narrow": decl(obj("name")), "exact": decl(obj("name", "port")), "wide": decl(obj("name", "port", "extra")),
			"pair": decl(cty.Tuple([]cty.Type{cty.String, cty.String})), "strings": decl(cty.List(cty.String)), "str": decl(cty.String),
		},
			Blocks: map[string]*schema.BlockSchema{"use": {Body: &schema.BodySchema{Attributes: map[string]*schema.AttributeSchema{
				"want_obj": want(obj("name", "port")), "want_tuple": want(cty.Tuple([]cty.Type{cty.String, cty.String})), "want_list": want(cty.List(cty.String)),
				"want_list_obj": want(cty.List(obj("name", "port"))),
				"ref_obj":       {Constraint: schema.Reference{OfType: obj("name", "port")}, IsOptional: true},
			}}}}}
	},
		"narrow = { name = \"a\" }\nexact = { name = \"a\", port = \"1\" }\nwide = { name = \"a\", port = \"1\", extra = \"x\" }\npair = [\"a\", \"b\"]\nstrings = [\"a\", \"b\"]\nstr = \"s\"\nuse {\n  want_obj = \n}\n",
		"narrow = { name = \"a\" }\nexact = { name = \"a\", port = \"1\" }\nwide = { name = \"a\", port = \"1\", extra = \"x\" }\npair = [\"a\", \"b\"]\nstrings = [\"a\", \"b\"]\nuse {\n  want_tuple = \n}\n",
		"narrow = { name = \"a\" }\nexact = { name = \"a\", port = \"1\" }\nwide = { name = \"a\", port = \"1\", extra = \"x\" }\npair = [\"a\", \"b\"]\nstrings = [\"a\", \"b\"]\nuse {\n  want_list = d.\n  want_list_obj = [d.]\n  ref_obj = d.\n}\n",
	)

	// a body that enables count / for_each AND declares attributes of those names itself
	add("ext-name-clash", func() *schema.BodySchema {
		return &schema.BodySchema{Blocks: map[string]*schema.BlockSchema{
			"res": {Body: &schema.BodySchema{
				Extensions: ext(true, true, false, false),
				Attributes: map[string]*schema.AttributeSchema{
					"count": {Constraint: schema.LiteralType{Type: cty.Number}, IsOptional: true, Description: lang.Markdown("own count"),
						SemanticTokenModifiers: lang.SemanticTokenModifiers{lang.TokenModifierDependent}},
					"for_each": {Constraint: schema.LiteralType{Type: cty.String}, IsOptional: true,
						SemanticTokenModifiers: lang.SemanticTokenModifiers{lang.TokenModifierDependent}},
					"other": strAttr(nil),
				}}},
		}}
	},
		"res {\n  \n}\n",
		"res {\n  count = 2\n  other = \"x\"\n}\nres {\n  for_each = \"s\"\n  c\n}\n",
	)

	// an inferred body whose nested block types have no body schema
	add("infer-nobody", func() *schema.BodySchema {
		return &schema.BodySchema{Blocks: map[string]*schema.BlockSchema{
			"res": {
				Labels: []*schema.LabelSchema{{Name: "name"}},
				Body: &schema.BodySchema{
					Attributes: map[string]*schema.AttributeSchema{"a": strAttr(nil)},
					Blocks: map[string]*schema.BlockSchema{
						"ob": {Type: schema.BlockTypeObject},
						"lb": {Type: schema.BlockTypeList},
						"sb": {Type: schema.BlockTypeSet},
						"mb": {Type: schema.BlockTypeMap, Labels: []*schema.LabelSchema{{Name: "key"}}},
					},
				},
				Address: &schema.BlockAddrSchema{Steps: schema.Address{schema.StaticStep{Name: "res"}, schema.LabelStep{Index: 0}}, BodyAsData: true, InferBody: true, BodySelfRef: true, AsReference: true},
			},
		}}
	},
		"res \"a\" {\n  a = \"x\"\n  ob {\n  }\n  lb {\n  }\n  lb {\n    z = 1\n  }\n  sb {\n  }\n  mb \"k\" {\n  }\n}\n",
		"res \"a\" {\n  ob {\n  }\n}\n",
	)

	// a block type without a static body whose dependent body resolves
	add("dep-nostatic", func() *schema.BodySchema {
		return &schema.BodySchema{Blocks: map[string]*schema.BlockSchema{
			"foo": {
				Labels: []*schema.LabelSchema{{Name: "type", IsDepKey: true, Completable: true}},
				DependentBody: map[schema.SchemaKey]*schema.BodySchema{
					depKey([]schema.LabelDependent{lbl(0, "a")}, nil): markerBody("m_a", func(b *schema.BodySchema) {
						b.Attributes["rq"] = &schema.AttributeSchema{Constraint: schema.LiteralType{Type: cty.String}, IsRequired: true}
						b.Blocks = map[string]*schema.BlockSchema{"nb": {Body: &schema.BodySchema{Attributes: map[string]*schema.AttributeSchema{"n": strAttr(nil)}}}}
					}),
				},
			},
		}}
	},
		"foo \"a\" {\n  m_a = \"x\"\n  bogus = 1\n  nb {\n    n = \"q\"\n    zz = 1\n  }\n}\nfoo \"zz\" {\n  bogus = 1\n}\n",
		"foo \"a\" {\n  rq = \"r\"\n  \n}\n",
	)

	// a block whose static AND dependent body are both addressable as data
	add("dep-bothdata", func() *schema.BodySchema {
		return &schema.BodySchema{Blocks: map[string]*schema.BlockSchema{
			"res": {
				Labels: []*schema.LabelSchema{{Name: "type", IsDepKey: true}, {Name: "name"}},
				Body:   &schema.BodySchema{Attributes: map[string]*schema.AttributeSchema{"static": strAttr(nil)}},
				DependentBody: map[schema.SchemaKey]*schema.BodySchema{
					depKey([]schema.LabelDependent{lbl(0, "x")}, nil): {Attributes: map[string]*schema.AttributeSchema{"dep": {Constraint: schema.LiteralType{Type: cty.Number}, IsOptional: true}}},
				},
				Address: &schema.BlockAddrSchema{
					Steps:      schema.Address{schema.LabelStep{Index: 0}, schema.LabelStep{Index: 1}},
					BodyAsData: true, InferBody: true, DependentBodyAsData: true, InferDependentBody: true, AsReference: true,
				},
			},
			// the same with only the STATIC body inferred: its written attributes stay elements of the data whether or
			// not a dependent body is found
			"sres": {
				Labels: []*schema.LabelSchema{{Name: "type", IsDepKey: true}, {Name: "name"}},
				Body:   &schema.BodySchema{Attributes: map[string]*schema.AttributeSchema{"static": strAttr(nil)}},
				DependentBody: map[schema.SchemaKey]*schema.BodySchema{
					depKey([]schema.LabelDependent{lbl(0, "x")}, nil): {Attributes: map[string]*schema.AttributeSchema{"dep": {Constraint: schema.LiteralType{Type: cty.Number}, IsOptional: true}}},
				},
				Address: &schema.BlockAddrSchema{
					Steps:      schema.Address{schema.StaticStep{Name: "sres"}, schema.LabelStep{Index: 0}, schema.LabelStep{Index: 1}},
					BodyAsData: true, InferBody: true, DependentBodyAsData: true, AsReference: true,
				},
			},
		}}
	},
		"res \"x\" \"a\" {\n  static = \"s\"\n  dep = 1\n}\nres \"zz\" \"b\" {\n  static = \"t\"\n}\n",
		"sres \"x\" \"a\" {\n  static = \"s\"\n  dep = 1\n}\nsres \"zz\" \"b\" {\n  static = \"t\"\n}\n",
		// one address declared twice in a file (each declaration keeps its own target)
		"res \"x\" \"a\" {\n  static = \"s\"\n}\nres \"zz\" \"m\" {\n}\nres \"x\" \"a\" {\n  dep = 2\n  static = \"second\"\n}\n",
	)

	add("dep-2labels", func() *schema.BodySchema {
		return &schema.BodySchema{Blocks: map[string]*schema.BlockSchema{
			"two": {
				Labels: []*schema.LabelSchema{{Name: "a", IsDepKey: true, Completable: true}, {Name: "b", IsDepKey: true, Completable: true}},
				Body:   &schema.BodySchema{Attributes: map[string]*schema.AttributeSchema{"static": strAttr(nil)}},
				DependentBody: map[schema.SchemaKey]*schema.BodySchema{
					depKey([]schema.LabelDependent{lbl(0, "x"), lbl(1, "y")}, nil): markerBody("m_xy", func(b *schema.BodySchema) {
						b.Attributes["rq"] = &schema.AttributeSchema{Constraint: schema.LiteralType{Type: cty.String}, IsRequired: true}
					}),
					depKey([]schema.LabelDependent{lbl(1, "x"), lbl(0, "y")}, nil): markerBody("m_yx", nil),
					depKey([]schema.LabelDependent{lbl(0, "x"), lbl(1, "x")}, nil): markerBody("m_xx", nil),
				},
			},
		}}
	},
		"two \"x\" \"y\" {\n  m_xy = \"1\"\n  rq = \"r\"\n}\ntwo \"y\" \"x\" {\n  m_yx = \"1\"\n  m_xy = \"no\"\n}\n",
		"two \"x\" \"\" {\n}\ntwo \"x\" {\n}\n",
		"tw\n",
		// multi-byte text in front of a label, on a line that is not the first
		"two \"x\" \"y\" {\n}\n/* \u00e9 */ two \"x\" \"y\" {\n}\ntwo \"\u00e9\" \"x\" {\n}\n",
	)

	// --- dependent bodies keyed by attribute value ---------------------------------------------
	add("dep-attr", func() *schema.BodySchema {
		return &schema.BodySchema{Blocks: map[string]*schema.BlockSchema{
			"data": {
				Labels: []*schema.LabelSchema{{Name: "name"}},
				Body: &schema.BodySchema{Attributes: map[string]*schema.AttributeSchema{
					"kind": {Constraint: schema.LiteralType{Type: cty.String}, IsOptional: true, IsDepKey: true,
						SemanticTokenModifiers: lang.SemanticTokenModifiers{lang.TokenModifierDependent}},
					"prov": {Constraint: schema.Reference{OfScopeId: "sp"}, IsOptional: true, IsDepKey: true},
					"num":  {Constraint: schema.LiteralType{Type: cty.Number}, IsOptional: true, IsDepKey: true},
					"flag": {Constraint: schema.LiteralType{Type: cty.Bool}, IsOptional: true, IsDepKey: true},
				}},
				DependentBody: map[schema.SchemaKey]*schema.BodySchema{
					depKey(nil, []schema.AttributeDependent{attrDep("kind", cty.StringVal("k1"))}): markerBody("m_k1", func(b *schema.BodySchema) {
						b.DocsLink = &schema.DocsLink{URL: "https://example.com/k1"}
						b.Targets = &schema.Target{Path: lang.Path{Path: "/p1"}, Range: SentinelRange}
					}),
					depKey(nil, []schema.AttributeDependent{attrDep("kind", cty.StringVal("k2"))}): markerBody("m_k2", nil),
					depKey(nil, []schema.AttributeDependent{attrDepAddr("prov", lang.Address{lang.RootStep{Name: "p"}, lang.AttrStep{Name: "one"}})}): markerBody("m_prov", func(b *schema.BodySchema) {
						b.DocsLink = &schema.DocsLink{URL: "https://example.com/prov"}
					}),
					depKey(nil, []schema.AttributeDependent{attrDep("num", cty.NumberIntVal(1))}):                                       markerBody("m_num", nil),
					depKey(nil, []schema.AttributeDependent{attrDep("flag", cty.True)}):                                                 markerBody("m_flag", nil),
					depKey(nil, []schema.AttributeDependent{attrDep("kind", cty.StringVal("k1")), attrDep("num", cty.NumberIntVal(1))}): markerBody("m_k1num", nil),
				},
			},
		}}
	},
		"data \"a\" {\n  kind = \"k1\"\n  m_k1 = \"x\"\n}\ndata \"b\" {\n  m_k2 = \"y\"\n  kind = \"k2\"\n}\n",
		"data \"c\" {\n  prov = p.one\n  m_prov = \"z\"\n}\ndata \"d\" {\n  num = 1\n  m_num = \"n\"\n  m_k1 = \"no\"\n}\n",
		"data \"e\" {\n  num = 1\n  kind = \"k1\"\n  m_k1num = \"n\"\n}\ndata \"f\" {\n  flag = true\n  m_flag = \"n\"\n}\n",
		"data \"g\" {\n  kind = true ? null : \"a\"\n}\ndata \"h\" {\n  kind = unknownfn()\n  kind2 = 1\n}\n",
		"data \"i\" {\n  kind = \n}\n",
		"data \"j\" {\n  kind = \"k1\"\n  \n}\n",
	)

	// a static body that points at another path: every written dependency key attribute is a direct origin,
	// whatever its value looks like (also an unclosed call, whose end the parser leaves at 0:0)
	add("dep-direct-static", func() *schema.BodySchema {
		return &schema.BodySchema{Blocks: map[string]*schema.BlockSchema{
			"module": {
				Labels: []*schema.LabelSchema{{Name: "name"}},
				Body: &schema.BodySchema{
					Targets:  &schema.Target{Path: lang.Path{Path: "/p1"}, Range: SentinelRange},
					DocsLink: &schema.DocsLink{URL: "https://example.com/module"},
					Attributes: map[string]*schema.AttributeSchema{
						"source": {Constraint: schema.LiteralType{Type: cty.String}, IsOptional: true, IsDepKey: true},
						"other":  strAttr(nil),
					}},
				DependentBody: map[schema.SchemaKey]*schema.BodySchema{
					depKey(nil, []schema.AttributeDependent{attrDep("source", cty.StringVal("./m"))}): markerBody("m_m", func(b *schema.BodySchema) {
						b.DocsLink = &schema.DocsLink{URL: "https://example.com/m"}
					}),
				},
			},
		}}
	},
		"module \"a\" {\n  source = \"./m\"\n  m_m = \"x\"\n}\nmodule \"b\" {\n  source = \"./other\"\n}\n",
		"module \"c\" {\n  source = upper(\n}\n",
		"module \"d\" {\n  source = [upper(\"a\", ]\n  other = \"o\"\n}\n",
		"module \"e\" {\n  source =\n}\n",
	)

	// default value selects body; docs link on it (links must cope with the attribute absent)
	add("dep-default", func() *schema.BodySchema {
		return &schema.BodySchema{Blocks: map[string]*schema.BlockSchema{
			"b": {
				Body: &schema.BodySchema{Attributes: map[string]*schema.AttributeSchema{
					"kind": {Constraint: schema.LiteralType{Type: cty.String}, IsOptional: true, IsDepKey: true,
						DefaultValue: schema.DefaultValue{Value: cty.StringVal("dflt")}},
				}},
				DependentBody: map[schema.SchemaKey]*schema.BodySchema{
					depKey(nil, []schema.AttributeDependent{attrDep("kind", cty.StringVal("dflt"))}): markerBody("m_dflt", func(b *schema.BodySchema) {
						b.DocsLink = &schema.DocsLink{URL: "https://example.com/dflt"}
					}),
					depKey(nil, []schema.AttributeDependent{attrDep("kind", cty.StringVal("other"))}): markerBody("m_other", nil),
				},
			},
		}}
	},
		"b {\n}\n",
		"b {\n  m_dflt = \"x\"\n}\nb {\n  kind = \"other\"\n  m_other = \"y\"\n}\nb {\n  kind = \"dflt\"\n}\n",
	)

	// two-level dependent body: the first-level body declares a dep-key attribute
	add("dep-2level", func() *schema.BodySchema {
		return &schema.BodySchema{Blocks: map[string]*schema.BlockSchema{
			"prov": {
				Labels: []*schema.LabelSchema{{Name: "type", IsDepKey: true, Completable: true}},
				Body:   &schema.BodySchema{Attributes: map[string]*schema.AttributeSchema{"static": strAttr(nil)}},
				DependentBody: map[schema.SchemaKey]*schema.BodySchema{
					depKey([]schema.LabelDependent{lbl(0, "t")}, nil): markerBody("m_l1", func(b *schema.BodySchema) {
						b.Attributes["mode"] = &schema.AttributeSchema{Constraint: schema.LiteralType{Type: cty.String}, IsOptional: true, IsDepKey: true}
					}),
					depKey([]schema.LabelDependent{lbl(0, "t")}, []schema.AttributeDependent{attrDep("mode", cty.StringVal("m"))}): markerBody("m_l2", func(b *schema.BodySchema) {
						b.Attributes["mode"] = &schema.AttributeSchema{Constraint: schema.LiteralType{Type: cty.String}, IsOptional: true, IsDepKey: true}
						b.DocsLink = &schema.DocsLink{URL: "https://example.com/l2"}
					}),
				},
			},
		}}
	},
		"prov \"t\" {\n  m_l1 = \"x\"\n}\nprov \"t\" {\n  mode = \"m\"\n  m_l2 = \"y\"\n  m_l1 = \"no\"\n}\n",
		"prov \"t\" {\n  mode = \"zz\"\n  m_l1 = \"x\"\n  unk = 1\n}\n",
	)

	// dependent block WITHOUT body under DynamicBlocks; static block without body under DynamicBlocks
	add("dyn-nobody", func() *schema.BodySchema {
		return &schema.BodySchema{Blocks: map[string]*schema.BlockSchema{
			"r": {
				Labels: []*schema.LabelSchema{{Name: "type", IsDepKey: true}},
				Body:   &schema.BodySchema{Extensions: ext(false, false, true, false)},
				DependentBody: map[schema.SchemaKey]*schema.BodySchema{
					depKey([]schema.LabelDependent{lbl(0, "t")}, nil): {Blocks: map[string]*schema.BlockSchema{"nb": {}}},
				},
			},
			"s": {
				Body: &schema.BodySchema{Extensions: ext(false, false, true, false), Blocks: map[string]*schema.BlockSchema{"nb": {}}},
			},
		}}
	},
		"r \"t\" {\n  nb {\n  }\n}\n",
		"s {\n  nb {\n  }\n}\n",
		"r \"zz\" {\n}\n",
	)

	// --- extensions on a static body -----------------------------------------------------------
	for m := 1; m < 16; m++ {
		e := ext(m&1 != 0, m&2 != 0, m&4 != 0, m&8 != 0)
		add("ext-"+extName(e), func() *schema.BodySchema {
			return &schema.BodySchema{Blocks: map[string]*schema.BlockSchema{
				"b": {
					Labels: []*schema.LabelSchema{{Name: "n"}},
					Body: &schema.BodySchema{
						Extensions: e.Copy(),
						Attributes: map[string]*schema.AttributeSchema{
							"xa": {Constraint: schema.AnyExpression{OfType: cty.String}, IsOptional: true},
							"ya": {Constraint: schema.AnyExpression{OfType: cty.Number}, IsOptional: true},
						},
						Blocks: map[string]*schema.BlockSchema{
							"inner": {MinItems: 1, Body: &schema.BodySchema{
								Attributes: map[string]*schema.AttributeSchema{"z": {Constraint: schema.AnyExpression{OfType: cty.String}, IsOptional: true}},
								Blocks: map[string]*schema.BlockSchema{"inner2": {Body: &schema.BodySchema{
									Attributes: map[string]*schema.AttributeSchema{"q": {Constraint: schema.AnyExpression{OfType: cty.Number}, IsOptional: true}}}}},
							}},
						},
					},
					Address: &schema.BlockAddrSchema{Steps: schema.Address{schema.StaticStep{Name: "b"}, schema.LabelStep{Index: 0}},
						BodyAsData: true, InferBody: true, BodySelfRef: true, AsReference: true},
				},
			}}
		},
			"b \"n\" {\n  count = 2\n  xa = count.index\n  ya = self.xa\n  inner {\n    z = each.key\n  }\n}\n",
			"b \"n\" {\n  for_each = { a = 1 }\n  xa = each.value\n  dynamic \"inner\" {\n    for_each = [1]\n    content {\n      z = inner.value\n      dynamic \"inner2\" {\n        for_each = []\n        content {\n          q = 1\n        }\n      }\n    }\n  }\n}\n",
			"b \"n\" {\n  x\n}\n",
			"b \"n\" {\n  dynamic \"\" {\n  }\n  dynamic {\n  }\n  dynamic \"nope\" {\n    content {\n    }\n  }\n}\n",
			"b \"n\" {\n  c\n  xa = \n}\n",
			// values spread over several lines that mention the name their own attribute declares
			"b \"n\" {\n  count = fn2(\n    2,\n    count.ind\n  )\n  ya = fn2(\n    self.y,\n    2\n  )\n}\nb \"m\" {\n  for_each = {\n    a = each.k\n    b = \"x\"\n  }\n}\n",
		)
	}

	// the all-extensions schema again, in a path that has a second file whose one block declares count, for_each
	// and self references over a byte range that covers every offset of the file under test
	{
		last := out[len(out)-1]
		out = append(out, Entry{ID: "S:ext-twofiles", Mk: last.Mk, Family: "struct", Hooks: -1,
			Seeds: []string{
				"b \"n\" {\n  xa = each.key\n  ya = count.index\n  inner {\n    z = self.xa\n  }\n}\n",
				"b \"n\" {\n  xa = \n  ya = \n}\n",
				"b \"n\" {\n  inner {\n    z = \n  }\n}\nb \"m\" {\n  count = 1\n  ya = count.index\n}\n",
			},
			Companion: []world.FileSpec{{Name: "zz.tf", Text: "b \"other\" {\n  count = 2\n  for_each = { a = \"x\" }\n  xa = \"pad pad pad pad pad pad pad pad pad pad pad pad pad pad pad pad pad pad pad pad pad pad pad pad pad pad pad pad\"\n  ya = count.index\n  inner {\n    z = each.key\n  }\n  inner {\n    z = self.xa\n  }\n}\n"}},
		})
	}

	// ... and with a SHORT companion block: offsets of the file under test lie inside its byte range near the top
	// of the file and outside further down, so text inserted above an item moves cursors across that boundary
	{
		var mk func() *schema.BodySchema
		for _, e := range out {
			if e.ID == "S:ext-twofiles" {
				mk = e.Mk
			}
		}
		out = append(out, Entry{ID: "S:ext-twofiles-short", Mk: mk, Family: "struct", Hooks: -1,
			Seeds: []string{
				// the cursor after "b.other." is the last byte inside the companion block's byte range
				"b \"n\" {\n  ya = 12345678901234\n  xa = b.other.\n}\n",
				"b \"n\" {\n  ya = 12345678901\n  xa = b.other.xa\n}\n",
				// count.index (declared only in the companion) starting on the last byte of the companion block's range
				"b \"n\" {\n  xa = \"12345678901234567890\"\n  ya = count.index\n}\n",
				"b \"n\" {\n  ya = 1\n  xa = \n}\n",
				"b \"n\" {\n  xa = b.other.\n}\nb \"m\" {\n  xa = \n  ya = \n}\n",
				"b \"n\" {\n  ya = count.index\n  xa = each.key\n}\n",
			},
			Companion: []world.FileSpec{{Name: "zz.tf", Text: "b \"other\" {\n  count = 1\n  xa = \"vv\"\n  ya = 2\n}\n"}},
		})
	}

	// --- block addresses -------------------------------------------------------------------------
	add("addr-forms", func() *schema.BodySchema {
		body := func() *schema.BodySchema {
			return &schema.BodySchema{
				Description: lang.Markdown("var body"),
				Attributes: map[string]*schema.AttributeSchema{
					"type":    {Constraint: schema.TypeDeclaration{}, IsOptional: true},
					"default": {Constraint: schema.AnyExpression{OfType: cty.DynamicPseudoType}, IsOptional: true},
					"alias":   {Constraint: schema.LiteralType{Type: cty.String}, IsOptional: true},
				},
				Blocks: map[string]*schema.BlockSchema{"validation": {Body: &schema.BodySchema{Attributes: map[string]*schema.AttributeSchema{"msg": {Constraint: schema.LiteralType{Type: cty.String}, IsOptional: true}}}}},
			}
		}
		return &schema.BodySchema{Blocks: map[string]*schema.BlockSchema{
			"variable": {Labels: []*schema.LabelSchema{{Name: "name"}}, Body: body(),
				Address: &schema.BlockAddrSchema{Steps: schema.Address{schema.StaticStep{Name: "var"}, schema.LabelStep{Index: 0}},
					FriendlyName: "variable", ScopeId: "sv", AsReference: true, AsTypeOf: &schema.BlockAsTypeOf{AttributeExpr: "type"}}},
			"provider": {Labels: []*schema.LabelSchema{{Name: "name"}}, Body: body(),
				Address: &schema.BlockAddrSchema{Steps: schema.Address{schema.LabelStep{Index: 0}, schema.AttrValueStep{Name: "alias", IsOptional: true}},
					ScopeId: "sp", AsReference: true}},
			"strict": {Labels: []*schema.LabelSchema{{Name: "name"}}, Body: body(),
				Address: &schema.BlockAddrSchema{Steps: schema.Address{schema.StaticStep{Name: "strict"}, schema.AttrValueStep{Name: "alias"}},
					AsReference: true, SupportUnknownNestedRefs: true}},
			"typeof_missing": {Body: &schema.BodySchema{},
				Address: &schema.BlockAddrSchema{Steps: schema.Address{schema.StaticStep{Name: "tm"}},
					AsTypeOf: &schema.BlockAsTypeOf{AttributeExpr: "nosuch"}}},
			"data": {Labels: []*schema.LabelSchema{{Name: "name"}}, Type: schema.BlockTypeObject,
				Body: &schema.BodySchema{
					Attributes: map[string]*schema.AttributeSchema{
						"s":    {Constraint: schema.LiteralType{Type: cty.String}, IsOptional: true},
						"l":    {Constraint: schema.LiteralType{Type: cty.List(cty.String)}, IsOptional: true},
						"o":    {Constraint: schema.LiteralType{Type: objType}, IsOptional: true},
						"m":    {Constraint: schema.AnyExpression{OfType: cty.Map(cty.Number)}, IsOptional: true},
						"c":    {Constraint: schema.LiteralType{Type: cty.String}, IsComputed: true},
						"num":  {Constraint: schema.LiteralType{Type: cty.Number}, IsOptional: true},
						"flag": {Constraint: schema.LiteralType{Type: cty.Bool}, IsOptional: true},
					},
					Blocks: map[string]*schema.BlockSchema{
						"lb": {Type: schema.BlockTypeList, Body: &schema.BodySchema{Attributes: map[string]*schema.AttributeSchema{"v": strAttr(nil)}}},
						"sb": {Type: schema.BlockTypeSet, Body: &schema.BodySchema{Attributes: map[string]*schema.AttributeSchema{"v": strAttr(nil)}}},
						"mb": {Type: schema.BlockTypeMap, Labels: []*schema.LabelSchema{{Name: "k"}}, Body: &schema.BodySchema{Attributes: map[string]*schema.AttributeSchema{"v": strAttr(nil)}}},
						"ob": {Type: schema.BlockTypeObject, Body: &schema.BodySchema{Attributes: map[string]*schema.AttributeSchema{"v": strAttr(nil)}}},
					},
				},
				Address: &schema.BlockAddrSchema{Steps: schema.Address{schema.StaticStep{Name: "data"}, schema.LabelStep{Index: 0}},
					BodyAsData: true, InferBody: true, BodySelfRef: true}},
		}}
	},
		"variable \"a\" {\n  type = list(string)\n  default = [\"x\"]\n}\nvariable \"b\" {\n}\nprovider \"p\" {\n  alias = \"one\"\n}\nprovider \"q\" {\n}\n",
		"strict \"s\" {\n  alias = \"al\"\n}\nstrict \"t\" {\n}\nstrict \"u\" {\n  alias = true ? null : \"a\"\n}\nprovider \"r\" {\n  alias = 42\n}\ntypeof_missing {\n  nosuch = string\n}\n",
		"data \"d\" {\n  s = \"x\"\n  l = [\"a\", \"b\"]\n  o = { foo = \"f\", bar = true }\n  m = { k = 1 }\n  lb {\n    v = \"1\"\n  }\n  lb {\n    v = \"2\"\n  }\n  sb {\n  }\n  mb \"k1\" {\n    v = self.s\n  }\n  ob {\n  }\n}\n",
		// map-typed nested blocks of an inferred body: the first without its key label, later ones with it
		"data \"e\" {\n  mb {\n    v = \"0\"\n  }\n  mb \"k2\" {\n    v = \"1\"\n  }\n  mb \"k3\" {\n  }\n  lb {\n  }\n  num = -1\n  flag = !true\n}\ndata \"f\" {\n  num = (3)\n  flag = (false)\n}\ndata \"g\" {\n  num = -0.5e1\n}\n",
		"variable \"a\" {\n  type = \n}\nvariable {\n}\n",
		// a typed declaration that also holds a nested block
		"variable \"x\" {\n  type = string\n  validation {\n    msg = \"m\"\n  }\n}\nvariable \"y\" {\n  validation {\n  }\n  type = map(number)\n}\n",
	)

	// one address declared twice in a file, the second declaration on line 9 (one inserted line moves it to a
	// two-digit line number), and references to it
	{
		var mk func() *schema.BodySchema
		for _, e := range out {
			if e.ID == "S:addr-forms" {
				mk = e.Mk
			}
		}
		if mk != nil {
			out = append(out, Entry{ID: "S:dup-decl", Mk: mk, Family: "struct", Hooks: -1, Seeds: []string{
				"variable \"x\" {\n  type = string\n}\nvariable \"a\" {\n  default = var.x\n}\n\n\nvariable \"x\" {\n  type = number\n}\nvariable \"b\" {\n  default = var.x\n}\n",
				// the first line begins with blanks (the body's range starts at the first token)
				"  variable \"x\" {\n  type = string\n}\n",
			}})
		}
	}

	// --- TargetableAs on a block body and on the ROOT body; implied origins; targets --------------
	add("targetable-block", func() *schema.BodySchema {
		tas := func() schema.Targetables {
			return schema.Targetables{
				{Address: lang.Address{lang.RootStep{Name: "ta"}, lang.AttrStep{Name: "one"}}, ScopeId: "st", AsType: cty.String, FriendlyName: "ta one"},
				{Address: lang.Address{lang.RootStep{Name: "ta"}, lang.AttrStep{Name: "obj"}}, AsType: cty.Object(map[string]cty.Type{"k": cty.Number}),
					NestedTargetables: schema.Targetables{
						{Address: lang.Address{lang.RootStep{Name: "ta"}, lang.AttrStep{Name: "obj"}, lang.AttrStep{Name: "k"}}, AsType: cty.Number}}},
			}
		}
		return &schema.BodySchema{
			Attributes: map[string]*schema.AttributeSchema{"r": {Constraint: schema.AnyExpression{OfType: cty.String}, IsOptional: true}},
			Blocks: map[string]*schema.BlockSchema{
				"mod": {Labels: []*schema.LabelSchema{{Name: "n"}},
					Body: &schema.BodySchema{
						TargetableAs: tas(),
						ImpliedOrigins: schema.ImpliedOrigins{{
							OriginAddress: lang.Address{lang.RootStep{Name: "ta"}, lang.AttrStep{Name: "one"}},
							TargetAddress: lang.Address{lang.RootStep{Name: "output"}, lang.AttrStep{Name: "one"}},
							Path:          lang.Path{Path: "/p1"}, Constraints: schema.Constraints{ScopeId: "so"}}},
						Attributes: map[string]*schema.AttributeSchema{"src": {Constraint: schema.LiteralType{Type: cty.String}, IsOptional: true, IsDepKey: true}},
					},
					DependentBody: map[schema.SchemaKey]*schema.BodySchema{
						depKey(nil, []schema.AttributeDependent{attrDep("src", cty.StringVal("./m"))}): markerBody("m_in", func(b *schema.BodySchema) {
							// (nested targetables written by hand, not in address order)
							b.TargetableAs = schema.Targetables{{Address: lang.Address{lang.RootStep{Name: "ta"}, lang.AttrStep{Name: "dep"}}, AsType: cty.Bool},
								{Address: lang.Address{lang.RootStep{Name: "ta"}, lang.AttrStep{Name: "cfg"}}, AsType: cty.Object(map[string]cty.Type{"zone": cty.String, "alias": cty.String}),
									NestedTargetables: schema.Targetables{
										{Address: lang.Address{lang.RootStep{Name: "ta"}, lang.AttrStep{Name: "cfg"}, lang.AttrStep{Name: "zone"}}, AsType: cty.String},
										{Address: lang.Address{lang.RootStep{Name: "ta"}, lang.AttrStep{Name: "cfg"}, lang.AttrStep{Name: "alias"}}, AsType: cty.String}}}}
							b.ImpliedOrigins = schema.ImpliedOrigins{{
								OriginAddress: lang.Address{lang.RootStep{Name: "ta"}, lang.AttrStep{Name: "dep"}},
								TargetAddress: lang.Address{lang.RootStep{Name: "output"}, lang.AttrStep{Name: "dep"}},
								Path:          lang.Path{Path: "/p1"}}}
							b.Targets = &schema.Target{Path: lang.Path{Path: "/p1"}, Range: SentinelRange}
							b.Attributes["m_in"].OriginForTarget = &schema.PathTarget{
								Address: schema.Address{schema.StaticStep{Name: "var"}, schema.AttrNameStep{}}, Path: lang.Path{Path: "/p1"},
								Constraints: schema.Constraints{ScopeId: "sv", Type: cty.String}}
						}),
					},
				},
			},
		}
	},
		"mod \"m\" {\n  src = \"./m\"\n  m_in = \"x\"\n}\nr = ta.one\n",
		"mod \"m\" {\n}\nr = \"${ta.obj.k}-${ta.dep}\"\n",
	)
	add("targetable-root", func() *schema.BodySchema {
		return &schema.BodySchema{
			TargetableAs: schema.Targetables{{Address: lang.Address{lang.RootStep{Name: "root"}}, AsType: cty.String}},
			Attributes:   map[string]*schema.AttributeSchema{"r": {Constraint: schema.AnyExpression{OfType: cty.String}, IsOptional: true}},
		}
	}, "r = root\n", "")
	// a root-level targetable (no range of its own) with the same address as a block declaration
	add("targetable-root-clash", func() *schema.BodySchema {
		return &schema.BodySchema{
			TargetableAs: schema.Targetables{{Address: lang.Address{lang.RootStep{Name: "foo"}, lang.AttrStep{Name: "bar"}}, AsType: cty.String, FriendlyName: "foo bar"}},
			Attributes:   map[string]*schema.AttributeSchema{"x": {Constraint: schema.AnyExpression{OfType: cty.DynamicPseudoType}, IsOptional: true}},
			Blocks: map[string]*schema.BlockSchema{"foo": {Labels: []*schema.LabelSchema{{Name: "n"}}, Body: &schema.BodySchema{Attributes: map[string]*schema.AttributeSchema{"a": strAttr(nil)}},
				Address: &schema.BlockAddrSchema{Steps: schema.Address{schema.StaticStep{Name: "foo"}, schema.LabelStep{Index: 0}}, AsReference: true, BodyAsData: true, InferBody: true}}},
		}
	}, "foo \"bar\" {\n  a = \"v\"\n}\nx = foo.bar\n", "x = foo.bar\nfoo \"bar\" {\n}\n")

	// --- modifiers of enclosing blocks: several levels, several labels
	add("modifiers-deep", func() *schema.BodySchema {
		return &schema.BodySchema{Blocks: map[string]*schema.BlockSchema{
			"outer": {SemanticTokenModifiers: lang.SemanticTokenModifiers{"mo1", "mo2"}, Body: &schema.BodySchema{
				Attributes: map[string]*schema.AttributeSchema{"oa": {Constraint: schema.LiteralType{Type: cty.String}, IsOptional: true, SemanticTokenModifiers: lang.SemanticTokenModifiers{"moa"}}},
				Blocks: map[string]*schema.BlockSchema{
					"inner": {SemanticTokenModifiers: lang.SemanticTokenModifiers{"mi"},
						Labels: []*schema.LabelSchema{{Name: "type", SemanticTokenModifiers: lang.SemanticTokenModifiers{"ml-type"}}, {Name: "name", SemanticTokenModifiers: lang.SemanticTokenModifiers{"ml-name"}}, {Name: "third"}},
						Body: &schema.BodySchema{
							Attributes: map[string]*schema.AttributeSchema{"ia": {Constraint: schema.LiteralType{Type: cty.Number}, IsOptional: true, SemanticTokenModifiers: lang.SemanticTokenModifiers{"mia"}},
								// several attributes of one body with different modifiers (under a modifier chain with spare capacity)
								"ib": {Constraint: schema.LiteralType{Type: cty.Number}, IsOptional: true, SemanticTokenModifiers: lang.SemanticTokenModifiers{"mib"}},
								"ic": {Constraint: schema.LiteralType{Type: cty.Number}, IsOptional: true, SemanticTokenModifiers: lang.SemanticTokenModifiers{"mic1", "mic2"}},
								"id": {Constraint: schema.LiteralType{Type: cty.Number}, IsOptional: true}},
							Blocks: map[string]*schema.BlockSchema{"leaf": {SemanticTokenModifiers: lang.SemanticTokenModifiers{"mleaf1", "mleaf2", "mleaf3"},
								Labels: []*schema.LabelSchema{{Name: "a", SemanticTokenModifiers: lang.SemanticTokenModifiers{"mla"}}, {Name: "b", SemanticTokenModifiers: lang.SemanticTokenModifiers{"mlb"}}},
								Body: &schema.BodySchema{Attributes: map[string]*schema.AttributeSchema{"la": {Constraint: schema.LiteralType{Type: cty.Bool}, IsOptional: true},
									"lb": {Constraint: schema.LiteralType{Type: cty.Bool}, IsOptional: true, SemanticTokenModifiers: lang.SemanticTokenModifiers{"mlb1"}},
									"lc": {Constraint: schema.LiteralType{Type: cty.Bool}, IsOptional: true, SemanticTokenModifiers: lang.SemanticTokenModifiers{"mlc1"}}}}}},
						}},
				},
			}},
		}}
	},
		"outer {\n  oa = \"x\"\n  inner \"aaa\" \"bbb\" \"ccc\" {\n    ia = 1\n    leaf \"p\" \"q\" {\n      la = true\n    }\n    leaf \"r\" \"s\" {\n    }\n  }\n  inner \"ddd\" \"eee\" \"fff\" {\n  }\n}\n",
		"outer {\n  inner \"a\" \"b\" \"c\" {\n    ia = 1\n    ib = 2\n    ic = 3\n    id = 4\n    leaf \"p\" \"q\" {\n      la = true\n      lb = false\n      lc = true\n    }\n  }\n}\n",
	)

	// --- dependent body whose nested block has extensions of its own, under DynamicBlocks
	add("dep-nested-ext", func() *schema.BodySchema {
		setting := func() *schema.BlockSchema {
			return &schema.BlockSchema{Body: &schema.BodySchema{Extensions: ext(false, false, false, true),
				Attributes: map[string]*schema.AttributeSchema{"v": {Constraint: schema.AnyExpression{OfType: cty.String}, IsOptional: true}},
				Blocks:     map[string]*schema.BlockSchema{"rule": {Body: &schema.BodySchema{Attributes: map[string]*schema.AttributeSchema{"w": strAttr(nil)}}}}}}
		}
		// one block schema value shared by two parents (schemas share sub-schemas freely)
		shared := setting()
		return &schema.BodySchema{Blocks: map[string]*schema.BlockSchema{
			"resource": {Labels: []*schema.LabelSchema{{Name: "type", IsDepKey: true}, {Name: "name"}},
				Body: &schema.BodySchema{Extensions: ext(true, false, true, false), Attributes: map[string]*schema.AttributeSchema{"st": strAttr(nil)},
					// a static nested block with extensions of its own and a nested block
					Blocks: map[string]*schema.BlockSchema{"conn": {Body: &schema.BodySchema{Extensions: ext(false, false, false, true),
						Attributes: map[string]*schema.AttributeSchema{"host": {Constraint: schema.AnyExpression{OfType: cty.String}, IsOptional: true}},
						Blocks:     map[string]*schema.BlockSchema{"hop": {Body: &schema.BodySchema{Attributes: map[string]*schema.AttributeSchema{"h": strAttr(nil)}}}}}}}},
				DependentBody: map[schema.SchemaKey]*schema.BodySchema{
					depKey([]schema.LabelDependent{lbl(0, "aws")}, nil): {Blocks: map[string]*schema.BlockSchema{"setting": shared, "plain": {Body: &schema.BodySchema{}}}},
				}},
			"data": {Labels: []*schema.LabelSchema{{Name: "type", IsDepKey: true}},
				Body: &schema.BodySchema{},
				DependentBody: map[schema.SchemaKey]*schema.BodySchema{
					depKey([]schema.LabelDependent{lbl(0, "aws")}, nil): {Blocks: map[string]*schema.BlockSchema{"setting": shared}},
				}},
		}}
	},
		"resource \"aws\" \"a\" {\n  setting {\n    v = self.v\n    rule {\n    }\n  }\n  dynamic \"setting\" {\n    for_each = []\n    content {\n    }\n  }\n}\ndata \"aws\" {\n  setting {\n    \n  }\n}\n",
		"data \"aws\" {\n  setting {\n    rule {\n    }\n    \n  }\n}\nresource \"aws\" \"b\" {\n  plain {\n  }\n}\n",
		// an unresolved sibling before a resolved one (and the other way round); dynamic blocks inside the static nested block
		"resource \"zz\" \"u\" {\n  conn {\n  }\n}\nresource \"aws\" \"a\" {\n  conn {\n    dynamic \"hop\" {\n      for_each = []\n      content {\n      }\n    }\n  }\n}\n",
		"resource \"aws\" \"a\" {\n  conn {\n    dynamic \"hop\" {\n      for_each = []\n      content {\n      }\n    }\n  }\n}\nresource \"zz\" \"u\" {\n  conn {\n    dynamic \"hop\" {\n      for_each = []\n      content {\n      }\n    }\n  }\n}\n",
		// the shared nested block under the parent that enables dynamic blocks, then under the one that does not
		"resource \"aws\" \"a\" {\n  setting {\n  }\n}\ndata \"aws\" {\n  setting {\n    dynamic \"rule\" {\n      for_each = []\n      content {\n      }\n    }\n  }\n}\n",
	)

	// the dependency key label is the SECOND label (its position in a key is 0, its index 1); the first label is
	// completable too but selects nothing
	add("dep-label-second", func() *schema.BodySchema {
		return &schema.BodySchema{Blocks: map[string]*schema.BlockSchema{
			"unit": {Labels: []*schema.LabelSchema{{Name: "name", Completable: true}, {Name: "kind", IsDepKey: true, Completable: true}},
				Body: &schema.BodySchema{Attributes: map[string]*schema.AttributeSchema{"st": strAttr(nil)}},
				DependentBody: map[schema.SchemaKey]*schema.BodySchema{
					depKey([]schema.LabelDependent{lbl(1, "alpha")}, nil): markerBody("m_alpha", nil),
					depKey([]schema.LabelDependent{lbl(1, "beta")}, nil):  markerBody("m_beta", nil),
				}},
		}}
	},
		"unit \"x\" \"\" {\n}\nunit \"\" \"alpha\" {\n  m_alpha = \"v\"\n  \n}\nunit \"y\" \"be\" {\n}\n",
	)

	// a label value that only occurs in a key which also carries an attribute (no labels-only key beside it)
	add("dep-label-attrkey", func() *schema.BodySchema {
		return &schema.BodySchema{Blocks: map[string]*schema.BlockSchema{
			"res": {Labels: []*schema.LabelSchema{{Name: "type", IsDepKey: true, Completable: true}, {Name: "name"}},
				Body: &schema.BodySchema{Attributes: map[string]*schema.AttributeSchema{
					"mode": {Constraint: schema.LiteralType{Type: cty.String}, IsOptional: true, IsDepKey: true}}},
				DependentBody: map[schema.SchemaKey]*schema.BodySchema{
					depKey([]schema.LabelDependent{lbl(0, "aws")}, nil): markerBody("m_aws", func(b *schema.BodySchema) {
						b.Detail = "aws alone"
						b.Description = lang.Markdown("selected by the label")
					}),
					// the same label value once more, in a key that also carries an attribute (Terraform: resource type + provider)
					depKey([]schema.LabelDependent{lbl(0, "aws")}, []schema.AttributeDependent{attrDep("mode", cty.StringVal("x"))}): markerBody("m_aws_x", func(b *schema.BodySchema) {
						b.Detail = "aws with x"
						b.Description = lang.Markdown("selected by label and mode")
					}),
					depKey([]schema.LabelDependent{lbl(0, "gcp")}, []schema.AttributeDependent{attrDep("mode", cty.StringVal("x"))}):   markerBody("m_gcp_x", nil),
					depKey([]schema.LabelDependent{lbl(0, "gcp")}, []schema.AttributeDependent{attrDep("mode", cty.StringVal("y"))}):   markerBody("m_gcp_y", nil),
					depKey([]schema.LabelDependent{lbl(0, "azure")}, []schema.AttributeDependent{attrDep("mode", cty.StringVal("x"))}): markerBody("m_az_x", nil),
				}},
		}}
	},
		"res \"\" \"n\" {\n}\nres \"g\" \"n\" {\n  mode = \"x\"\n  m_gcp_x = \"v\"\n}\nres \"gcp\" \"m\" {\n  mode = \"y\"\n  \n}\n",
	)

	// a block type with a maximum next to dynamic blocks that generate it (generated blocks do not count as written ones)
	add("dyn-maxitems", func() *schema.BodySchema {
		return &schema.BodySchema{Blocks: map[string]*schema.BlockSchema{
			"res": {Labels: []*schema.LabelSchema{{Name: "type", IsDepKey: true}},
				Body: &schema.BodySchema{Extensions: ext(false, false, true, false), Attributes: map[string]*schema.AttributeSchema{"st": strAttr(nil)}},
				DependentBody: map[schema.SchemaKey]*schema.BodySchema{
					depKey([]schema.LabelDependent{lbl(0, "a")}, nil): {Blocks: map[string]*schema.BlockSchema{
						"foo": {MaxItems: 1, Body: &schema.BodySchema{Attributes: map[string]*schema.AttributeSchema{"x": strAttr(nil)}}},
						"two": {MaxItems: 2, Body: &schema.BodySchema{}},
						"bar": {Body: &schema.BodySchema{}}}},
				}},
		}}
	},
		"res \"a\" {\n  dynamic \"foo\" {\n    for_each = []\n    content {\n    }\n  }\n  \n}\nres \"a\" {\n  two {\n  }\n  dynamic \"two\" {\n    for_each = []\n    content {\n    }\n  }\n  \n}\n",
	)

	// the dependent body brings extensions of its own: (a) without DynamicBlocks where the static body enables
	// them, and a block type with a minimum; (b) DynamicBlocks enabled by the dependent body only
	add("dep-own-ext", func() *schema.BodySchema {
		return &schema.BodySchema{Blocks: map[string]*schema.BlockSchema{
			"foo": {Labels: []*schema.LabelSchema{{Name: "type", IsDepKey: true}},
				Body: &schema.BodySchema{Extensions: ext(false, false, true, false), Attributes: map[string]*schema.AttributeSchema{"st": strAttr(nil)}},
				DependentBody: map[schema.SchemaKey]*schema.BodySchema{
					depKey([]schema.LabelDependent{lbl(0, "a")}, nil): {Extensions: ext(true, false, false, false),
						Blocks: map[string]*schema.BlockSchema{"one": {MinItems: 1, Body: &schema.BodySchema{Attributes: map[string]*schema.AttributeSchema{"x": strAttr(nil)}}}}},
				}},
			"bar": {Labels: []*schema.LabelSchema{{Name: "type", IsDepKey: true}},
				Body: &schema.BodySchema{Attributes: map[string]*schema.AttributeSchema{"st": strAttr(nil)}},
				DependentBody: map[schema.SchemaKey]*schema.BodySchema{
					depKey([]schema.LabelDependent{lbl(0, "a")}, nil): {Extensions: ext(false, false, true, false),
						Blocks: map[string]*schema.BlockSchema{"two": {Body: &schema.BodySchema{Attributes: map[string]*schema.AttributeSchema{"y": strAttr(nil)},
							Blocks: map[string]*schema.BlockSchema{"deep": {Body: &schema.BodySchema{Attributes: map[string]*schema.AttributeSchema{"z": strAttr(nil)}}}}}}}},
				}},
		}}
	},
		"foo \"a\" {\n  dynamic \"one\" {\n    for_each = []\n    content {\n      x = \"v\"\n    }\n  }\n  count = 1\n}\nfoo \"a\" {\n  one {\n  }\n  \n}\nfoo \"a\" {\n}\n",
		"bar \"a\" {\n  dynamic \"two\" {\n    for_each = []\n    content {\n      y = \"v\"\n      dynamic \"deep\" {\n        for_each = []\n        content {\n          z = \"w\"\n        }\n      }\n    }\n  }\n  two {\n    \n  }\n  \n}\n",
	)

	// --- required-field prefilling: snippets with many tab stops --------------------------------
	add("prefill-required", func() *schema.BodySchema {
		reqBody := func() *schema.BodySchema {
			return &schema.BodySchema{
				Attributes: map[string]*schema.AttributeSchema{
					"a_map": {Constraint: schema.Map{Elem: schema.LiteralType{Type: cty.String}}, IsRequired: true},
					"b_obj": {Constraint: schema.Object{Attributes: schema.ObjectAttributes{
						"x": {Constraint: schema.LiteralType{Type: cty.String}, IsRequired: true},
						"y": {Constraint: schema.LiteralType{Type: cty.Number}, IsRequired: true},
						"z": {Constraint: schema.LiteralType{Type: cty.Bool}, IsOptional: true}}}, IsRequired: true},
					"c_str":  {Constraint: schema.LiteralType{Type: cty.String}, IsRequired: true},
					"d_list": {Constraint: schema.List{Elem: schema.LiteralType{Type: cty.Number}}, IsRequired: true},
					"e_any":  {Constraint: schema.AnyExpression{OfType: cty.Bool}, IsRequired: true},
					"f_opt":  {Constraint: schema.LiteralType{Type: cty.String}, IsOptional: true},
				},
				Blocks: map[string]*schema.BlockSchema{
					"rb": {MinItems: 1, Labels: []*schema.LabelSchema{{Name: "l"}}, Body: &schema.BodySchema{
						Attributes: map[string]*schema.AttributeSchema{"g": {Constraint: schema.LiteralType{Type: cty.String}, IsRequired: true}, "h": {Constraint: schema.LiteralType{Type: cty.Number}, IsRequired: true}},
						Blocks:     map[string]*schema.BlockSchema{"rbb": {MinItems: 2, Body: &schema.BodySchema{Attributes: map[string]*schema.AttributeSchema{"i": {Constraint: schema.LiteralType{Type: cty.String}, IsRequired: true}}}}},
					}},
					"ob": {Body: &schema.BodySchema{}},
				},
			}
		}
		return &schema.BodySchema{
			Attributes: map[string]*schema.AttributeSchema{
				"top_obj": {Constraint: schema.Object{Attributes: schema.ObjectAttributes{
					"p": {Constraint: schema.LiteralType{Type: cty.String}, IsRequired: true},
					"q": {Constraint: schema.List{Elem: schema.LiteralType{Type: cty.String}}, IsRequired: true}}}, IsOptional: true},
			},
			Blocks: map[string]*schema.BlockSchema{
				"res": {Labels: []*schema.LabelSchema{{Name: "type", IsDepKey: true, Completable: true}, {Name: "name"}},
					Body: &schema.BodySchema{Attributes: map[string]*schema.AttributeSchema{"st": {Constraint: schema.LiteralType{Type: cty.String}, IsRequired: true}}},
					DependentBody: map[schema.SchemaKey]*schema.BodySchema{
						depKey([]schema.LabelDependent{lbl(0, "full")}, nil):  reqBody(),
						depKey([]schema.LabelDependent{lbl(0, "empty")}, nil): {},
					}},
				"plain": {Labels: []*schema.LabelSchema{{Name: "n"}}, Body: reqBody()},
			},
		}
	},
		"res \"\" {\n}\n",
		"res \"f\" \"n\" {\n  \n}\nplain \"p\" {\n  \n}\n",
		"\n",
		"top_obj = \n",
	)
	return out
}

// p1Path is the second path of cross-path worlds: declares var.* and output.* targets.
func p1Path() world.PathSpec {
	return world.PathSpec{
		Path: "/p1",
		Schema: func() *schema.BodySchema {
			return &schema.BodySchema{Blocks: map[string]*schema.BlockSchema{
				"variable": {Labels: []*schema.LabelSchema{{Name: "name"}}, Body: &schema.BodySchema{},
					Address: &schema.BlockAddrSchema{Steps: schema.Address{schema.StaticStep{Name: "var"}, schema.LabelStep{Index: 0}}, ScopeId: "sv", AsReference: true,
						AsTypeOf: &schema.BlockAsTypeOf{}}},
				"output": {Labels: []*schema.LabelSchema{{Name: "name"}}, Body: &schema.BodySchema{
					Attributes: map[string]*schema.AttributeSchema{"value": {Constraint: schema.AnyExpression{OfType: cty.DynamicPseudoType}, IsOptional: true}}},
					Address: &schema.BlockAddrSchema{Steps: schema.Address{schema.StaticStep{Name: "output"}, schema.LabelStep{Index: 0}}, ScopeId: "so", AsReference: true}},
			}}
		},
		Files: []world.FileSpec{{Name: "m.tf", Text: "variable \"m_in\" {\n}\noutput \"one\" {\n  value = var.m_in\n}\noutput \"dep\" {\n}\n"}},
	}
}

// Catalogue returns all entries for a tier: structure templates, plus cons-family entries
// (constraint × extension subset), whose seeds are derived from ValueTexts by the caller.
func Catalogue(tier string) []Entry {
	out := Structures()
	for i := range out {
		out[i].Extra = []world.PathSpec{p1Path()}
	}
	depth := 1
	if tier == "thorough" {
		depth = 2
	}
	cons := Constraints(depth)
	exts := []*schema.BodyExtensions{ext(true, true, true, true)}
	if tier == "thorough" {
		exts = []*schema.BodyExtensions{nil, ext(true, true, true, true)}
	}
	for _, c := range cons {
		c := c
		for _, e := range exts {
			out = append(out, Entry{ID: "C:" + c.Name + "/" + extName(e), Mk: ConsBody(c, e), Family: "cons", Cons: &c, Hooks: 3})
		}
	}
	// validity filter: the properties quantify over accepted schemas only
	var ok []Entry
	for _, e := range out {
		if err := e.Mk().Validate(); err != nil {
			continue
		}
		ok = append(ok, e)
	}
	sort.SliceStable(ok, func(i, j int) bool { return false })
	return ok
}

// Find returns the catalogue entry with the given id (searching the thorough catalogue).
func Find(id string) (Entry, bool) {
	for _, e := range Catalogue("thorough") {
		if e.ID == id {
			return e, true
		}
	}
	return Entry{}, false
}
