package gen

import (
	"github.com/hashicorp/hcl-lang/schema"
	"github.com/hashicorp/hcl/v2"
	"github.com/hashicorp/hcl/v2/hclsyntax"
	"github.com/zclconf/go-cty/cty"
	"github.com/zclconf/go-cty/cty/function"
)

// ValueTexts is the global menu of expression texts (simplest first). Every constraint is
// confronted with every text: conforming for some, non-conforming for the others.
func ValueTexts(tier string) []string {
	base := []string{
		`true`, `false`, `null`, `42`, `4.2`, `"foo"`, `""`, `"fo\"o"`, `"fü€"`, `kwd`, `foo`, `f`,
		`decl.foo`, `decl.foo.bar`, `decl.foo[0]`, `decl.foo["k"]`, `decl.foo[*].x`, `self.attr2`, `count.index`, `each.key`,
		`[]`, `["a"]`, `["a", "b"]`, `[decl.foo, 1]`, `[["a"]]`, `[ "a", ]`,
		`{}`, `{ foo = "x" }`, `{ foo = "x", bar = true }`, `{"foo" = 1}`, `{ "f\"oo" = "x" }`, `{ (foo) = 1 }`, `{ foo : 1 }`,
		"{\n  foo = \"x\"\n  bar = true\n}", "{\n  foo = \"x\"\n  \n}", "[\n  \"a\",\n  \n]", `{ "${decl.foo}" = 1 }`, `{ foo = { foo = "y" } }`,
		`{for k, v in decl.foo : k => v}`, `[for v in decl.foo : v if v]`,
		`fn()`, `fn("a")`, `fn("a", decl.foo)`, `fn(fn2(1), 2)`, `ns::fn(1)`, `provider::aws::x`, `provider::aws::xy("a")`, `unknown(1)`, `fn(`, `fn("a", `, `vf(1, 2, 3)`, `nop()`,
		`"${decl.foo}"`, `"a${decl.foo.bar}b"`, `"%{ if decl.foo }a%{ endif }"`, "<<EOT\nfoo ${decl.foo}\nEOT", `"${`, `"a-${fn("x")}"`,
		`1 + 2`, `decl.foo == 1`, `!decl.foo`, `-1`, `true ? decl.foo : "b"`, `true ? null : "a"`, `(decl.foo)`, `decl.foo[decl.foo.bar]`, `decl.foo.*.id`,
		`["a", true, f]`, `[1, 2, 3]`, `{ foo = "x", "${decl.foo}" = 1 }`, `{ foo = "x", (decl.foo) = true }`, `{ foo = "x", 42 = 1 }`, `provider::aws::x€ `, `provider::aw» y`,
		`fn2(1, )`, `fn(fn2(1, ), "b")`, `[decl.foo, decl.bar, decl.foo]`,
		"{\n  \u00e9\n}", "{\n  \u00e9t\u00e9 = \"x\"\n  \u00e9c\n}", "{ \u00e9", "{\n  \"\u00e9\n}", `provider::é`, `provider::é::x`, `provider::aws::ét("a")`, `decl.foo.0`, `decl.foo.10.x`, `list()`, `map()`, `object()`,
		`provider::éa`, `provider::éa::x("a")`, `vf(1, decl.foo.id, decl.foo.id)`, `{ ("k") = 1, null = 2, true = 3 }`, `true ? [decl.foo.bar, "x"] : []`, `true ? { k = decl.foo.bar } : {}`, "decl.foo[\n\"k\"\n]", "(decl.\nfoo)", "decl.foo[\n  0\n].x", `1 < decl.foo.id`, `decl.foo.id >= 2`, `decl.foo.bar == "x"`, `decl. foo`, `decl .foo.bar`, `ns ::fn(1)`, `provider::  aws::xy("a")`, `provider :: aws::x`, `[fn2(1, ]`, `sh1("a", "b")`, `sh3("a", "b", )`, `sh1("a", sh3("x", "y", "z"))`, `{ foo = decl.foo.bar, bar = true }`, `{ k = decl.foo.bar }`, `[decl.foo.bar]`,
		"{\r\n}\r", "{\r\n  foo = \"x\"\r\n}\r", "[\r\n  \"a\",\r\n]\r", "fn(\r\n  \"a\"\r\n)\r", `[null, "b"]`,
		`string`, `list(string)`, `object({a=string})`, `tuple([string, bool])`, `map(any)`, `object({a=optional(string)})`, `list(`, `object({`, `any`, `object({})`, `list(object({}))`,
		// half-typed object attribute names that are not in normal form C
		"{\n  e\u0301l\n}", "{ \u212ae", "{\n  \u00e9l\n}",
		// a blank between a (type) function name and its parenthesis
		`map ()`, `list (string)`, `fn ("a")`,
		// blanks and line breaks between a parenthesis and what it wraps
		`(  decl.foo)`, `1 + ( decl.foo )`, "(\n  decl.foo\n)", `( "a" )`, `fn( decl.foo )`,
	}
	if tier == "thorough" {
		base = append(base,
			`"é"`, `"é"`, `"👍🏽"`, `{ "é" = "x" }`, `[ "ü", decl.foo ]`, `{ foo = "x", bar = `, `{ foo = "x"`, `{ fo`, `["a", `,
			`fn(["a"], {foo = 1})`, `fn("a,b)", 1)`, "fn(\n  \"a\",\n  1\n)", `decl.foo[`, `decl.`, `decl.foo.`, `"${decl.`, `1 +`, `true ?`, `true ? 1 :`,
			`[for`, `{for k, v in`, `<<EOT`, "<<-EOT\n  a\n  EOT", `set(string)`, `list(object({a=string}))`, `object({ a = object({}) })`, `tuple([object({})])`, `optional(string, "x")`,
			`{ foo = "x", foo = "y" }`, `{ null = 1 }`, `{ 42 = 1 }`, `{ true = 1 }`, `{ decl.foo = 1 }`, `[null]`, `[true, "a"]`, `["a", true]`,
			`fn2(1).x`, `fn("a")[0]`, `{ foo = fn("a") }`, `[fn("a")]`, `{ foo = decl.foo }`, `[{ foo = "x" }]`, `{ k = ["a"] }`,
		)
	}
	return base
}

// Functions is the function set every catalogue world knows.
func Functions() map[string]schema.FunctionSignature {
	// two signatures whose fixed parameters are sub-slices of one table (spare capacity behind the shorter one)
	table := []function.Parameter{{Name: "s1", Type: cty.String}, {Name: "s2", Type: cty.String}, {Name: "s3", Type: cty.String}}
	return map[string]schema.FunctionSignature{
		"sh1": {ReturnType: cty.String, Params: table[:1], VarParam: &function.Parameter{Name: "more", Type: cty.String}},
		"sh3": {ReturnType: cty.String, Params: table[:3]},
		// a namespaced name with a multi-byte segment
		"provider::\u00e9a::x": {ReturnType: cty.String, Params: []function.Parameter{{Name: "s", Type: cty.String}}},
		"fn": {
			Description: "fn desc", ReturnType: cty.String,
			Params: []function.Parameter{{Name: "a", Type: cty.String, Description: "param a"}},
		},
		"fn2": {
			Description: "fn2 desc", ReturnType: cty.Number,
			Params: []function.Parameter{{Name: "n", Type: cty.Number}, {Name: "m", Type: cty.Number}},
		},
		"ns::fn": {
			ReturnType: cty.Bool,
			Params:     []function.Parameter{{Name: "x", Type: cty.DynamicPseudoType}},
		},
		"provider::aws::xy": {
			ReturnType: cty.String,
			Params:     []function.Parameter{{Name: "s", Type: cty.String}},
		},
		"vf": {
			ReturnType: cty.List(cty.String),
			Params:     []function.Parameter{{Name: "first", Type: cty.Number}},
			VarParam:   &function.Parameter{Name: "rest", Type: cty.Number, Description: "the rest"},
		},
		"nop":  {ReturnType: cty.DynamicPseudoType},
		"objf": {ReturnType: objType, Params: []function.Parameter{{Name: "o", Type: cty.Map(cty.String)}}},
	}
}

// Prefixes returns every byte prefix of text (including the empty one and text itself),
// skipping prefixes that end inside a multi-byte rune? No: the parser accepts arbitrary bytes,
// so every prefix is a legal buffer state; mid-rune cuts are included.
func Prefixes(text string) []string {
	out := make([]string, 0, len(text)+1)
	for i := 0; i <= len(text); i++ {
		out = append(out, text[:i])
	}
	return out
}

// EditTokens is the alphabet used by single-token edits.
var EditTokens = []string{"=", "{", "}", "[", "]", "(", ")", ",", ".", ":", "?", "\"", "${", "%{", "\n", "x", "0", "#", "<<E\n", " "}

// tokenBounds returns the byte offsets of token boundaries of text (native syntax lexer; used
// only to find boundaries).
func tokenBounds(text string) [][2]int {
	toks, _ := hclsyntax.LexConfig([]byte(text), "x.tf", hcl.InitialPos)
	var out [][2]int
	for _, t := range toks {
		if t.Type == hclsyntax.TokenEOF {
			continue
		}
		out = append(out, [2]int{t.Range.Start.Byte, t.Range.End.Byte})
	}
	return out
}

// Edits1 returns the single-token edits of text: delete each token, duplicate each token,
// insert each alphabet token at each boundary and (full=true) replace each token by each
// alphabet token.
func Edits1(text string, full bool) []string {
	return EditsLevel(text, map[bool]int{false: 1, true: 2}[full])
}

// QuickEditTokens is the reduced insertion alphabet of the quick tier.
var QuickEditTokens = []string{"=", "{", "}", "\"", ".", ",", "\n", "x"}

// EditsLevel: 0 = delete/duplicate + insertion of the reduced alphabet; 1 = full insertion
// alphabet; 2 = also replacement of every token by every alphabet token.
func EditsLevel(text string, level int) []string {
	full := level >= 2
	alphabet := EditTokens
	if level == 0 {
		alphabet = QuickEditTokens
	}
	seen := map[string]bool{text: true}
	var out []string
	add := func(s string) {
		if !seen[s] {
			seen[s] = true
			out = append(out, s)
		}
	}
	tb := tokenBounds(text)
	for _, b := range tb {
		add(text[:b[0]] + text[b[1]:])
	}
	for _, b := range tb {
		add(text[:b[1]] + text[b[0]:b[1]] + text[b[1]:])
	}
	bounds := map[int]bool{0: true, len(text): true}
	for _, b := range tb {
		bounds[b[0]] = true
		bounds[b[1]] = true
	}
	for off := 0; off <= len(text); off++ {
		if !bounds[off] {
			continue
		}
		for _, t := range alphabet {
			add(text[:off] + t + text[off:])
		}
	}
	// the file begins with something that is no token of the body (every tier)
	add(" " + text)
	add("/* c */ " + text)
	add("\t\n" + text)
	add("\ufeff" + text)
	if full {
		for _, b := range tb {
			for _, t := range EditTokens {
				add(text[:b[0]] + t + text[b[1]:])
			}
		}
	}
	return out
}

// SeqAlphabet is the token sub-alphabet for the all-strings-of-length<=k family.
var SeqAlphabet = []string{"a", "=", "{", "}", "[", "\"", ".", ",", "(", "\n"}

// Seqs returns all token strings over SeqAlphabet of length 1..k.
func Seqs(k int) []string {
	var out []string
	var rec func(prefix string, n int)
	rec = func(prefix string, n int) {
		if n == 0 {
			return
		}
		for _, t := range SeqAlphabet {
			s := prefix + t
			out = append(out, s)
			rec(s, n-1)
		}
	}
	rec("", k)
	return out
}
