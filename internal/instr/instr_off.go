//go:build !verif

// Package instr is the harness side of the instrumented build variant. In the plain build it
// reports that instrumentation is unavailable.
package instr

import (
	"github.com/hashicorp/hcl-lang/schema"
	"github.com/hashicorp/hcl/v2"
)

// Available tells whether this binary was built with -tags verif and the overlay.
const Available = false

func MergeBlockBodySchemas(block *hcl.Block, bs *schema.BlockSchema) *schema.BodySchema { return nil }

func Steps() int64                                       { return 0 }
func ResetSteps()                                        {}
func SetChooser(f func(site, n int) []int)               {}
func SetYieldHook(f func(site int))                      {}
func Site(id int) string                                 { return "?" }
func Stats() (mapSites, yields, probes, unprobed int)    { return }
func Globals() []any                                     { return nil }
func BarrierReset()                                      {}
func BarrierAddRegion(p uintptr, size uintptr, tag byte) {}
func BarrierAddMap(id uintptr, tag byte)                 {}
func BarrierHitsG() map[int]int                          { return nil }
func SyncImported() bool                                 { return false }
func BarrierSeal()                                       {}
func BarrierEnable(on bool)                              {}
func BarrierHits() map[int]int                           { return nil }
func BarrierProbes() int64                               { return 0 }
func BarrierClearHits()                                  {}
func BarrierSizes() (int, int)                           { return 0, 0 }
