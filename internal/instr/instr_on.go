//go:build verif

package instr

import (
	"unsafe"

	"github.com/hashicorp/hcl-lang/decoder"
	"github.com/hashicorp/hcl-lang/lang"
	"github.com/hashicorp/hcl-lang/reference"
	"github.com/hashicorp/hcl-lang/schema"
	"github.com/hashicorp/hcl-lang/validator"
	"github.com/hashicorp/hcl-lang/vrt"
	"github.com/hashicorp/hcl/v2"
)

const Available = true

// MergeBlockBodySchemas is the library's derivation of a block's effective body schema.
func MergeBlockBodySchemas(block *hcl.Block, bs *schema.BlockSchema) *schema.BodySchema {
	s, _ := decoder.VerifMergeBlockBodySchemas(block, bs)
	return s
}

func Steps() int64                         { return vrt.Steps }
func ResetSteps()                          { vrt.Steps = 0 }
func SetChooser(f func(site, n int) []int) { vrt.Chooser = f }
func SetYieldHook(f func(site int))        { vrt.YieldHook = f }
func Site(id int) string {
	if id >= 0 && id < len(vrt.Sites) {
		return vrt.Sites[id]
	}
	return "?"
}
func Stats() (mapSites, yields, probes, unprobed int) {
	return vrt.NumMapSites, vrt.NumYields, vrt.NumProbes, vrt.NumUnprobed
}

// Globals returns the addresses of all package-level variables of the instrumented packages.
func Globals() []any {
	var out []any
	out = append(out, decoder.VerifGlobals()...)
	out = append(out, decoder.VerifInternalGlobals()...)
	out = append(out, lang.VerifGlobals()...)
	out = append(out, reference.VerifGlobals()...)
	out = append(out, schema.VerifGlobals()...)
	out = append(out, validator.VerifGlobals()...)
	return out
}

func BarrierReset()                                      { vrt.ResetRegions() }
func BarrierAddRegion(p uintptr, size uintptr, tag byte) { vrt.AddRegion(unsafe.Pointer(p), size, tag) }
func BarrierAddMap(id uintptr, tag byte)                 { vrt.AddMap(id, tag) }

// BarrierHitsG: hits on package-level state of the library.
func BarrierHitsG() map[int]int { return vrt.HitsG }

// SyncImported tells whether any instrumented package imports sync or sync/atomic.
func SyncImported() bool       { return vrt.SyncImported }
func BarrierSeal()             { vrt.SealRegions() }
func BarrierEnable(on bool)    { vrt.BarrierOn = on }
func BarrierHits() map[int]int { return vrt.Hits }
func BarrierProbes() int64     { return vrt.Probes }
func BarrierClearHits()        { vrt.Hits = map[int]int{}; vrt.HitsG = map[int]int{} }
func BarrierSizes() (int, int) { return vrt.NumRegions() }
