package model

import (
	"encoding/json"
	"sort"
	"strings"

	"github.com/hashicorp/hcl-lang/schema"
	"github.com/hashicorp/hcl/v2"
	"github.com/hashicorp/hcl/v2/hclsyntax"
)

// Cand is an expected body/label candidate.
type Cand struct {
	Label string
	Kind  string // attribute | block | label
}

// Declarable: the attributes and block types of the effective schema that start with the typed
// prefix and can still be declared (attribute not yet present and not read-only; block below its
// maximum count), without duplicates, sorted by name.
func Declarable(e *Eff, body *hclsyntax.Body, prefix string) []Cand {
	var out []Cand
	has := func(n string) bool { _, ok := body.Attributes[n]; return ok }
	for n, a := range e.Attributes {
		if a.IsComputed && !a.IsOptional {
			continue
		}
		if has(n) || !strings.HasPrefix(n, prefix) {
			continue
		}
		out = append(out, Cand{n, "attribute"})
	}
	for _, x := range []struct {
		on   bool
		name string
	}{{e.Ext.Count, "count"}, {e.Ext.ForEach, "for_each"}} {
		if _, own := e.Attributes[x.name]; x.on && !own && !has(x.name) && strings.HasPrefix(x.name, prefix) {
			out = append(out, Cand{x.name, "attribute"})
		}
	}
	if len(e.Attributes) == 0 && e.Any != nil && prefix == "" {
		// statement is silent: the library offers a placeholder attribute called "name"
		out = append(out, Cand{"name", "attribute"})
	}
	count := map[string]uint64{}
	for _, b := range body.Blocks {
		count[b.Type]++
	}
	types := map[string]*schema.BlockSchema{}
	for t, b := range e.Blocks {
		types[t] = b
	}
	if _, real := types["dynamic"]; !real && e.DynKnown {
		types["dynamic"], _ = e.BlockSchemaFor("dynamic")
	}
	for t, b := range types {
		if _, clash := e.Attributes[t]; clash {
			continue
		}
		if b.MaxItems > 0 && count[t] >= b.MaxItems {
			continue
		}
		if !strings.HasPrefix(t, prefix) {
			continue
		}
		out = append(out, Cand{t, "block"})
	}
	sort.Slice(out, func(i, j int) bool { return out[i].Label < out[j].Label })
	return out
}

// LabelValues: the dependent-body label values at label index idx with the typed prefix,
// de-duplicated and sorted.
func LabelValues(bs *schema.BlockSchema, idx int, prefix string) []Cand {
	seen := map[string]bool{}
	var out []Cand
	for key := range bs.DependentBody {
		for _, lv := range labelsOfKey(key) {
			if lv.Index == idx && strings.HasPrefix(lv.Value, prefix) && !seen[lv.Value] {
				seen[lv.Value] = true
				out = append(out, Cand{lv.Value, "label"})
			}
		}
	}
	sort.Slice(out, func(i, j int) bool { return out[i].Label < out[j].Label })
	return out
}

// BodyCtx is the body that contains a position, with its effective schema.
type BodyCtx struct {
	Body    *hclsyntax.Body
	Eff     *Eff
	Unknown bool // inside a block whose schema is unknown / could not be resolved
	Block   *hclsyntax.Block
	BlockS  *schema.BlockSchema
	Parent  *BodyCtx
}

// BodyAt descends to the innermost block body whose braces enclose pos.
func BodyAt(root *schema.BodySchema, body *hclsyntax.Body, pos hcl.Pos) *BodyCtx {
	cur := &BodyCtx{Body: body, Eff: RootEff(root)}
	for {
		var next *BodyCtx
		for _, b := range cur.Body.Blocks {
			if b.OpenBraceRange.End.Byte <= pos.Byte && pos.Byte <= b.CloseBraceRange.Start.Byte && b.CloseBraceRange.End.Byte > b.CloseBraceRange.Start.Byte {
				n := &BodyCtx{Body: b.Body, Block: b, Parent: cur, Unknown: cur.Unknown}
				if cur.Eff != nil {
					if bs, ok := cur.Eff.BlockSchemaFor(b.Type); ok && bs.Body != nil {
						n.BlockS = bs
						n.Eff = EffectiveIn(cur.Eff, bs, b)
						if n.Eff.Sel == Unresolved || n.Eff.Sel == Partial {
							n.Unknown = true
						}
					} else {
						n.Unknown = true
						if ok {
							n.BlockS = bs
						}
					}
				} else {
					n.Unknown = true
				}
				next = n
				break
			}
		}
		if next == nil {
			return cur
		}
		cur = next
	}
}

type keyJSON struct {
	Labels []schema.LabelDependent `json:"labels"`
}

func labelsOfKey(k schema.SchemaKey) []schema.LabelDependent {
	var kj keyJSON
	if err := json.Unmarshal([]byte(k), &kj); err != nil {
		return nil
	}
	return kj.Labels
}

// LiteralKey: the key of an object item when it is written literally (bare identifier or quoted
// string without interpolation).
func LiteralKey(k hclsyntax.Expression) (string, bool) {
	ke, ok := k.(*hclsyntax.ObjectConsKeyExpr)
	if !ok {
		return "", false
	}
	switch w := ke.Wrapped.(type) {
	case *hclsyntax.ScopeTraversalExpr:
		if len(w.Traversal) == 1 && !ke.ForceNonLiteral {
			return w.Traversal.RootName(), true
		}
	case *hclsyntax.TemplateExpr:
		if w.IsStringLiteral() {
			v, _ := w.Value(nil)
			if v.IsKnown() && !v.IsNull() {
				return v.AsString(), true
			}
		}
	}
	return "", false
}
