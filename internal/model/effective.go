// Package model holds the reference models, written from the property statements (not from the
// implementation): effective schema selection, validation, declarable items, targets, origins,
// reference matching. They operate on the schema and on the hclsyntax tree of a file (the
// parser is the trusted source of what is written and where).
package model

import (
	"sort"

	"github.com/hashicorp/hcl-lang/lang"
	"github.com/hashicorp/hcl-lang/schema"
	"github.com/hashicorp/hcl/v2"
	"github.com/hashicorp/hcl/v2/hclsyntax"
	"github.com/zclconf/go-cty/cty"
)

// Selection describes how the dependent body of a block was selected.
type Selection int

const (
	NoKeys     Selection = iota // the block schema declares no dependency keys that the block supplies
	Resolved                    // a dependent body was found (possibly at the second level)
	Partial                     // first level found, it declares further key attributes, second level not found
	Unresolved                  // keys present but no dependent body registered for them
)

// Eff is the body schema in force inside a block.
type Eff struct {
	Sel        Selection
	Attributes map[string]*schema.AttributeSchema
	Blocks     map[string]*schema.BlockSchema
	Any        *schema.AttributeSchema
	Ext        schema.BodyExtensions
	// Dep is the selected dependent body (nil if none); Keys the pairs that selected it
	Dep       *schema.BodySchema
	KeyLabels []int    // indexes of the labels that took part in the selecting key
	KeyAttrs  []string // names of the attributes that took part in the selecting key
	Static    *schema.BodySchema
	// DynCarry: this is the header body of a dynamic block; dynamic-block support resumes in `content`
	DynCarry bool
	// DynKnown: a `dynamic` block may be written in this body; DynFor: the block types it may generate, which
	// are also the nested blocks the extension is handed down to. "Dynamic blocks are only relevant for
	// dependent schemas": with a selected dependent body these are the dependent body's block types; without
	// one (no keys, or keys that select nothing) every block type of the body.
	DynKnown bool
	DynFor   map[string]bool
}

// setDyn decides the dynamic-block support of the body given whether the extension is on for the static
// body (declared there, or handed down by the enclosing body).
func (e *Eff) setDyn(on bool) {
	e.DynKnown, e.DynFor = false, map[string]bool{}
	if !on {
		return
	}
	// (extensions a dependent body brings replace the static ones, but dynamic blocks stay enabled)
	e.Ext.DynamicBlocks = true
	if e.Sel == Resolved || e.Sel == Partial {
		if e.Dep != nil {
			for n := range e.Dep.Blocks {
				e.DynFor[n] = true
			}
			e.DynKnown = len(e.Dep.Blocks) > 0
		}
		return
	}
	for n := range e.Blocks {
		e.DynFor[n] = true
	}
	e.DynKnown = len(e.Blocks) > 0
}

// keyPairs extracts the dependency key/value pairs a block supplies for a given static body.
func keyPairs(bs *schema.BlockSchema, body *schema.BodySchema, blk *hclsyntax.Block) (schema.DependencyKeys, bool) {
	dk := schema.DependencyKeys{}
	for i, l := range bs.Labels {
		if l.IsDepKey {
			if i >= len(blk.Labels) {
				// a missing key label: the labels after it cannot be keys either
				return dk, len(dk.Labels) > 0
			}
			dk.Labels = append(dk.Labels, schema.LabelDependent{Index: i, Value: blk.Labels[i]})
		}
	}
	if body != nil && blk.Body != nil {
		names := make([]string, 0)
		for n, a := range body.Attributes {
			if a.IsDepKey {
				names = append(names, n)
			}
		}
		sort.Strings(names)
		for _, n := range names {
			as := body.Attributes[n]
			if attr, ok := blk.Body.Attributes[n]; ok {
				if st, ok := attr.Expr.(*hclsyntax.ScopeTraversalExpr); ok {
					addr, err := lang.TraversalToAddress(st.Traversal)
					if err != nil {
						continue
					}
					dk.Attributes = append(dk.Attributes, schema.AttributeDependent{Name: n, Expr: schema.ExpressionValue{Address: addr}})
					continue
				}
				v, diags := attr.Expr.Value(nil)
				if diags.HasErrors() && v.IsNull() {
					continue
				}
				dk.Attributes = append(dk.Attributes, schema.AttributeDependent{Name: n, Expr: schema.ExpressionValue{Static: v}})
			} else if dv, ok := as.DefaultValue.(schema.DefaultValue); ok {
				dk.Attributes = append(dk.Attributes, schema.AttributeDependent{Name: n, Expr: schema.ExpressionValue{Static: dv.Value}})
			}
		}
	}
	return dk, len(dk.Labels) > 0 || len(dk.Attributes) > 0
}

// Effective computes the body schema in force inside blk: the static body overlaid with the
// dependent body registered under the block's dependency keys (values of key labels, and values
// - literal, default or reference - of key attributes, including a second level keyed by
// attributes of the first), plus count / for_each / dynamic where those extensions are on.
func Effective(bs *schema.BlockSchema, blk *hclsyntax.Block) *Eff {
	e := &Eff{Attributes: map[string]*schema.AttributeSchema{}, Blocks: map[string]*schema.BlockSchema{}, Static: bs.Body}
	if bs.Body != nil {
		for n, a := range bs.Body.Attributes {
			e.Attributes[n] = a
		}
		for n, b := range bs.Body.Blocks {
			e.Blocks[n] = b
		}
		e.Any = bs.Body.AnyAttribute
		if bs.Body.Extensions != nil {
			e.Ext = *bs.Body.Extensions
		}
	}
	dk, has := keyPairs(bs, bs.Body, blk)
	missingKeyLabel := false
	for i, l := range bs.Labels {
		if l.IsDepKey && i >= len(blk.Labels) && len(bs.DependentBody) > 0 {
			missingKeyLabel = true
		}
	}
	if missingKeyLabel {
		// a label the body depends on is not written: the dependent body cannot be resolved
		e.Sel = Unresolved
	} else if !has {
		e.Sel = NoKeys
	} else if dep, ok := bs.DependentBody[schema.NewSchemaKey(dk)]; !ok {
		e.Sel = Unresolved
	} else {
		e.Sel = Resolved
		sel, selKeys := dep, dk
		// second level: the first-level body declares key attributes of its own
		l2 := false
		for _, a := range dep.Attributes {
			if a.IsDepKey {
				l2 = true
			}
		}
		if l2 {
			dk2, _ := keyPairs(bs, dep, blk)
			if dep2, ok := bs.DependentBody[schema.NewSchemaKey(dk2)]; ok {
				sel, selKeys = dep2, dk2
			} else {
				e.Sel = Partial
			}
		}
		e.Dep = sel
		for _, l := range selKeys.Labels {
			e.KeyLabels = append(e.KeyLabels, l.Index)
		}
		for _, a := range selKeys.Attributes {
			e.KeyAttrs = append(e.KeyAttrs, a.Name)
		}
		for n, a := range sel.Attributes {
			e.Attributes[n] = a
		}
		for n, b := range sel.Blocks {
			e.Blocks[n] = b
		}
		if sel.Extensions != nil {
			e.Ext = *sel.Extensions
		}
		if sel.AnyAttribute != nil && e.Any == nil {
			// the statement is silent on AnyAttribute of dependent bodies; the static one stays
		}
	}
	e.setDyn(bs.Body != nil && bs.Body.Extensions != nil && bs.Body.Extensions.DynamicBlocks)
	return e
}

// RootEff wraps a root body schema.
func RootEff(s *schema.BodySchema) *Eff {
	e := &Eff{Sel: NoKeys, Attributes: map[string]*schema.AttributeSchema{}, Blocks: map[string]*schema.BlockSchema{}, Static: s}
	if s == nil {
		return e
	}
	for n, a := range s.Attributes {
		e.Attributes[n] = a
	}
	for n, b := range s.Blocks {
		e.Blocks[n] = b
	}
	e.Any = s.AnyAttribute
	if s.Extensions != nil {
		e.Ext = *s.Extensions
	}
	e.setDyn(e.Ext.DynamicBlocks)
	return e
}

// AttrKnown tells whether an attribute name is known to the effective schema.
func (e *Eff) AttrKnown(name string) bool {
	if _, ok := e.Attributes[name]; ok {
		return true
	}
	if e.Any != nil {
		return true
	}
	if e.Ext.Count && name == "count" {
		return true
	}
	if e.Ext.ForEach && name == "for_each" {
		return true
	}
	return false
}

// BlockKnown tells whether a block type is known (dynamic counts when the extension is on and
// the body has block types to generate).
func (e *Eff) BlockKnown(typ string) bool {
	if _, ok := e.Blocks[typ]; ok {
		return true
	}
	if typ == "dynamic" && e.DynKnown {
		return true
	}
	return false
}

var _ = cty.String
var _ hcl.Range
