package model

import (
	"fmt"
	"sort"

	"github.com/hashicorp/hcl-lang/lang"
	"github.com/hashicorp/hcl-lang/schema"
	"github.com/hashicorp/hcl/v2"
	"github.com/hashicorp/hcl/v2/hclsyntax"
	"github.com/zclconf/go-cty/cty"
)

// ExpDiag is an expected diagnostic: severity, kind, the offending item and the extent(s) the
// subject range may have (the statement asks for "a subject range on the offending item").
type ExpDiag struct {
	Sev  hcl.DiagnosticSeverity
	Kind string // unexpected-attr, unexpected-block, missing-required, surplus-label, missing-labels, too-many, too-few, deprecated-attr, deprecated-block
	Item string // name of the item
	// Within: the subject must lie inside this range (item extent, or body extent for per-body counts)
	Within hcl.Range
}

func (d ExpDiag) Key() string {
	return fmt.Sprintf("%d|%s|%s|%d-%d", d.Sev, d.Kind, d.Item, d.Within.Start.Byte, d.Within.End.Byte)
}

// dynamicBlockSchema is the schema of a `dynamic "<type>" {}` block for a body whose block types
// are `blocks` (the statement only says that dynamic is offered where the extension is on; the
// shape - one key label, for_each/iterator/labels, one content block holding the generated
// block's body - is the documented Terraform construct).
func dynamicBlockSchema(blocks map[string]*schema.BlockSchema) *schema.BlockSchema {
	dep := map[schema.SchemaKey]*schema.BodySchema{}
	for name, b := range blocks {
		if name == "dynamic" {
			continue
		}
		body := b.Body
		dep[schema.NewSchemaKey(schema.DependencyKeys{Labels: []schema.LabelDependent{{Index: 0, Value: name}}})] = &schema.BodySchema{
			Blocks: map[string]*schema.BlockSchema{"content": {MinItems: 1, MaxItems: 1, Body: body}},
		}
	}
	return &schema.BlockSchema{
		Labels: []*schema.LabelSchema{{Name: "name", IsDepKey: true, Completable: true}},
		Body: &schema.BodySchema{Attributes: map[string]*schema.AttributeSchema{
			"for_each": {IsRequired: true, Constraint: schema.AnyExpression{OfType: cty.DynamicPseudoType}},
			"iterator": {IsOptional: true, Constraint: schema.LiteralType{Type: cty.String}},
			"labels":   {IsOptional: true, Constraint: schema.AnyExpression{OfType: cty.List(cty.String)}},
		}},
		DependentBody: dep,
	}
}

// BlockSchemaFor returns the schema of a block type inside an effective body (incl. dynamic).
func (e *Eff) BlockSchemaFor(typ string) (*schema.BlockSchema, bool) {
	if b, ok := e.Blocks[typ]; ok {
		return b, true
	}
	if typ == "dynamic" && e.DynKnown {
		gen := map[string]*schema.BlockSchema{}
		for n, b := range e.Blocks {
			if e.DynFor[n] {
				gen[n] = b
			}
		}
		return dynamicBlockSchema(gen), true
	}
	return nil, false
}

// EffectiveIn computes the effective body of blk inside parent (dynamic-block extension is
// inherited by nested bodies).
func EffectiveIn(parent *Eff, bs *schema.BlockSchema, blk *hclsyntax.Block) *Eff {
	e := Effective(bs, blk)
	if parent == nil {
		return e
	}
	_, realDynamic := parent.Blocks["dynamic"]
	if blk.Type == "dynamic" && !realDynamic && parent.DynKnown {
		// the header of a dynamic block: only for_each/iterator/labels and `content` live here;
		// dynamic blocks are generated inside `content`, not next to it
		e.Ext.DynamicBlocks = false
		e.setDyn(false)
		e.DynCarry = true
		return e
	}
	if parent.DynFor[blk.Type] || parent.DynCarry {
		e.setDyn(true)
	}
	return e
}

// Validate computes the expected diagnostics of a body under an effective schema.
// unknown = we are inside a block whose schema / dependent body could not be resolved.
func Validate(e *Eff, body *hclsyntax.Body, unknown bool) []ExpDiag {
	var out []ExpDiag
	if e == nil {
		unknown = true
	}
	names := make([]string, 0, len(body.Attributes))
	for n := range body.Attributes {
		names = append(names, n)
	}
	sort.Strings(names)
	for _, n := range names {
		a := body.Attributes[n]
		if e == nil || !e.AttrKnown(n) {
			if !unknown {
				out = append(out, ExpDiag{hcl.DiagError, "unexpected-attr", n, a.SrcRange})
			}
			continue
		}
		as := e.Attributes[n]
		if as == nil {
			as = e.Any
		}
		if (n == "count" && e.Ext.Count) || (n == "for_each" && e.Ext.ForEach) {
			if _, own := e.Attributes[n]; !own {
				continue // extension attributes are never deprecated
			}
		}
		if as != nil && as.IsDeprecated {
			out = append(out, ExpDiag{hcl.DiagWarning, "deprecated-attr", n, a.SrcRange})
		}
	}
	found := map[string]uint64{}
	dyn := map[string]bool{}
	for _, b := range body.Blocks {
		var bs *schema.BlockSchema
		known := false
		if e != nil {
			bs, known = e.BlockSchemaFor(b.Type)
		}
		if known {
			found[b.Type]++
			if b.Type == "dynamic" && len(b.Labels) > 0 {
				dyn[b.Labels[0]] = true
			}
		}
		if !known {
			if !unknown {
				out = append(out, ExpDiag{hcl.DiagError, "unexpected-block", b.Type, b.Range()})
			}
			out = append(out, Validate(nil, b.Body, true)...)
			continue
		}
		if bs.IsDeprecated {
			out = append(out, ExpDiag{hcl.DiagWarning, "deprecated-block", b.Type, b.Range()})
		}
		for i := len(bs.Labels); i < len(b.Labels); i++ {
			out = append(out, ExpDiag{hcl.DiagError, "surplus-label", fmt.Sprintf("%s#%d", b.Type, i), b.LabelRanges[i]})
		}
		if len(b.Labels) < len(bs.Labels) {
			out = append(out, ExpDiag{hcl.DiagError, "missing-labels", b.Type, b.Range()})
		}
		if bs.Body == nil && len(bs.DependentBody) == 0 {
			// a block type without body schema: its content is not described by the schema
			out = append(out, Validate(nil, b.Body, true)...)
			continue
		}
		ce := EffectiveIn(e, bs, b)
		cu := unknown || ce.Sel == Unresolved || ce.Sel == Partial
		out = append(out, Validate(ce, b.Body, cu)...)
	}
	if e == nil {
		return out
	}
	// per body: required attributes, limits
	var req []string
	for n, a := range e.Attributes {
		if a.IsRequired {
			if _, ok := body.Attributes[n]; !ok {
				req = append(req, n)
			}
		}
	}
	sort.Strings(req)
	for _, n := range req {
		out = append(out, ExpDiag{hcl.DiagError, "missing-required", n, body.SrcRange})
	}
	var types []string
	for t := range e.Blocks {
		types = append(types, t)
	}
	sort.Strings(types)
	for _, t := range types {
		bs := e.Blocks[t]
		if bs.MaxItems > 0 && found[t] > bs.MaxItems {
			out = append(out, ExpDiag{hcl.DiagError, "too-many", t, body.SrcRange})
		}
		if bs.MinItems > 0 && found[t] < bs.MinItems && !(e.DynFor[t] && dyn[t]) {
			out = append(out, ExpDiag{hcl.DiagError, "too-few", t, body.SrcRange})
		}
	}
	return out
}

// ClassifyDiag maps an actual diagnostic to (kind, item) by its summary.
func ClassifyDiag(d *hcl.Diagnostic) (kind, item string) {
	var n string
	switch {
	case d.Summary == "Unexpected attribute":
		fmt.Sscanf(d.Detail, "An attribute named %q", &n)
		return "unexpected-attr", n
	case d.Summary == "Unexpected block":
		fmt.Sscanf(d.Detail, "Blocks of type %q", &n)
		return "unexpected-block", n
	}
	if _, err := fmt.Sscanf(d.Summary, "Required attribute %q not specified", &n); err == nil {
		return "missing-required", n
	}
	if _, err := fmt.Sscanf(d.Summary, "Too many labels specified for %q", &n); err == nil {
		return "surplus-label", n
	}
	if _, err := fmt.Sscanf(d.Summary, "Not enough labels specified for %q", &n); err == nil {
		return "missing-labels", n
	}
	if _, err := fmt.Sscanf(d.Summary, "Too many blocks specified for %q", &n); err == nil {
		return "too-many", n
	}
	if _, err := fmt.Sscanf(d.Summary, "Too few blocks specified for %q", &n); err == nil {
		return "too-few", n
	}
	if _, err := fmt.Sscanf(d.Summary, "%q is deprecated", &n); err == nil {
		return "deprecated", n
	}
	return "other:" + d.Summary, ""
}

var _ = lang.Path{}
