// Package props holds one file per property: spaces, oracles and bounds per tier.
package props

import (
	"fmt"

	"github.com/hashicorp/hcl-lang/schema"
	"verif/internal/gen"

	"verif/internal/explore"
	"verif/internal/report"
	"verif/internal/run"
)

// witness builds the replayable part of a violation for a sweep case.
func witness(cx *explore.Ctx, check string, q run.Query) *report.Violation {
	return &report.Violation{
		Check:    check,
		SchemaID: cx.Case.Entry.ID,
		Files:    cx.Case.Files(),
		Query:    report.J(q),
	}
}

var allKinds = run.AllKinds

// C01: every query is total.
func C01(tier string) int {
	c := report.NewCollector("C01")
	groups := explore.Groups(explore.CaseOpts{Tier: tier, Prefixes: true, Edits: true, Seqs: true, JSON: true})
	groups = append(groups, func() []explore.Case { return jsonCases(tier) })
	// a path context without a schema (a server that has not loaded one yet): every entry point, a few files
	nos := gen.Entry{ID: "S:noschema", Mk: func() *schema.BodySchema { return nil }, Family: "struct", Hooks: -1}
	groups = append(groups, func() []explore.Case {
		var out []explore.Case
		for _, t := range []string{"", "attr = decl.foo\n", "blk \"a\" {\n  attr = fn(1, \"${x.y}\")\n  nb {\n  }\n}\n", "attr = {\n  foo = [1, x.y]\n", "blk {\n  dynamic \"nb\" {\n    for_each = []\n    content {\n    }\n  }\n  count = 1\n}\n"} {
			out = append(out, explore.Case{Entry: &nos, File: "main.tf", Text: t, Family: "noschema", PosTo: -1})
		}
		out = append(out, explore.Case{Entry: &nos, File: "main.tf.json", Text: "{\"attr\": \"${x.y}\", \"blk\": {\"a\": {\"attr\": [1]}}}\n", Family: "noschema", PosTo: -1})
		return out
	})
	explore.HangHook = func(item string) {
		c.Add(&report.Violation{Clause: "nontermination", Site: "watchdog", Detail: "a call made no progress for 120s: " + item, Check: "sweep"})
	}
	explore.SweepGroups(groups, c, explore.Deadline(tier), explore.Opts{
		Kinds:   allKinds,
		MidRune: true,
		OnResult: func(cx *explore.Ctx, q run.Query, r run.Result) {
			c01Result(cx, q, r)
		},
	})
	return c.Finish(report.FinishOpts{
		Tier: tier, Level: "exploration", EvalCounter: "calls",
		Rule: "E1 sweep: catalogue schemas (structure templates + one-constraint bodies) x files (seeds, every byte prefix, single-token edits, all token strings <=k) x every byte offset incl. mid-rune x all entry points; non-trivial = call returned a non-empty value; distinct = distinct canonical results",
		Assumptions: []string{
			"schemas are those of the catalogue (internal/gen); all pass schema Validate()",
			"termination: a call is flagged only if it makes no progress for 120 s (watchdog), typical call is ~10 us",
		},
		BiteCounters: []string{"calls", "nontrivial"},
	})
}

func c01Result(cx *explore.Ctx, q run.Query, r run.Result) {
	if r.Panic != nil {
		v := witness(cx, "sweep", q)
		v.Clause = "panic:" + r.Panic.Class
		v.Site = r.Panic.Site
		v.Detail = fmt.Sprintf("%s panicked: %s (at %s:%d)\nfile %q:\n%s", q, r.Panic.Value, r.Panic.Site, r.Panic.Line, cx.Case.File, cx.Case.Text)
		cx.C.Add(v)
		cx.L.Count("panics", 1)
		return
	}
	h, trivial := run.Hash(r)
	if !trivial {
		cx.L.Count("nontrivial", 1)
		cx.L.OutcomeHash(h)
		if cx.L.Counters["nontrivial"]%200000 == 1 {
			cx.C.Sample(map[string]any{"schema": cx.Case.Entry.ID, "file": cx.Case.Text, "query": q.String(), "result": trunc(run.CanonResult(r), 300)})
		}
	}
}

func trunc(s string, n int) string {
	if len(s) > n {
		return s[:n] + "..."
	}
	return s
}
