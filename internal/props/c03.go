package props

import (
	"context"
	"fmt"

	"github.com/hashicorp/hcl/v2"
	"github.com/hashicorp/hcl/v2/hclsyntax"

	"verif/internal/explore"
	"verif/internal/instr"
	"verif/internal/report"
	"verif/internal/run"
	"verif/internal/world"
)

// ---- E3: choice-point DFS over map iteration orders (deviation-bounded) -------------------------

type choicePoint struct{ site, n int }

type orderRun struct {
	prefix   [][]int // permutation per point index (nil = canonical)
	expect   []choicePoint
	points   []choicePoint
	diverged bool
	global   func(n int) []int // applied at every point beyond the prefix (nil = canonical)
}

func (o *orderRun) choose(site, n int) []int {
	i := len(o.points)
	o.points = append(o.points, choicePoint{site, n})
	if i < len(o.expect) && i < len(o.prefix) && o.expect[i] != (choicePoint{site, n}) {
		o.diverged = true
	}
	if i < len(o.prefix) {
		return o.prefix[i]
	}
	if o.global != nil {
		return o.global(n)
	}
	return nil
}

// permAlphabet: all n! orders for n <= 4; for larger n identity is excluded and the alphabet is
// reversal, all rotations, all adjacent transpositions and two interleavings.
func permAlphabet(n int) [][]int {
	id := make([]int, n)
	for i := range id {
		id[i] = i
	}
	var out [][]int
	if n <= 4 {
		var rec func(cur []int, used []bool)
		rec = func(cur []int, used []bool) {
			if len(cur) == n {
				same := true
				for i, x := range cur {
					if x != i {
						same = false
					}
				}
				if !same {
					out = append(out, append([]int{}, cur...))
				}
				return
			}
			for i := 0; i < n; i++ {
				if !used[i] {
					used[i] = true
					rec(append(cur, i), used)
					used[i] = false
				}
			}
		}
		rec(nil, make([]bool, n))
		return out
	}
	rev := make([]int, n)
	for i := range rev {
		rev[i] = n - 1 - i
	}
	out = append(out, rev)
	for r := 1; r < n; r++ {
		p := make([]int, n)
		for i := range p {
			p[i] = (i + r) % n
		}
		out = append(out, p)
	}
	for i := 0; i+1 < n; i++ {
		p := append([]int{}, id...)
		p[i], p[i+1] = p[i+1], p[i]
		out = append(out, p)
	}
	// interleave halves both ways
	h := n / 2
	a, b := make([]int, 0, n), make([]int, 0, n)
	for i := 0; i < n-h; i++ {
		a = append(a, i)
		if h+i < n && i < h {
			a = append(a, n-h+i)
		}
	}
	for i := 0; i < n-h; i++ {
		if i < h {
			b = append(b, n-h+i)
		}
		b = append(b, i)
	}
	if len(a) == n {
		out = append(out, a)
	}
	if len(b) == n {
		out = append(out, b)
	}
	return out
}

type e3 struct {
	w     *world.World
	cs    *explore.Case
	c     *report.Collector
	l     *report.Local
	bound int
}

func (e *e3) exec(q run.Query, o *orderRun) string {
	instr.SetChooser(o.choose)
	r := run.Call(e.w, q)
	instr.SetChooser(nil)
	e.l.Count("calls", 1)
	e.l.Count("executions", 1)
	e.l.Count("choice_points_decided", int64(len(o.points)))
	return run.CanonResult(r)
}

func (e *e3) report(q run.Query, base, got string, o *orderRun, what string) {
	// the deviating site: last point of the prefix
	site := "global:" + what
	if what == "" && len(o.prefix) > 0 && len(o.prefix) <= len(o.points) {
		site = siteClass(instr.Site(o.points[len(o.prefix)-1].site))
	}
	e.c.Add(&report.Violation{Clause: "map-order-dependence", Site: kindClass(q.Kind) + "@" + site, Check: "e3", SchemaID: e.cs.Entry.ID, Files: e.cs.Files(), Query: report.J(q),
		Extra:  report.J(map[string]any{"prefix": o.prefix, "global": what}),
		Detail: fmt.Sprintf("%s: result depends on map iteration order (deviation at %s, choice vector %v %s)\n canonical order: %s\n this order:      %s\nfile:\n%s", q, site, o.prefix, what, diffWindow(base, got), diffWindow(got, base), e.cs.Text)})
}

// diffWindow shows a around the first difference with b.
func diffWindow(a, b string) string {
	i := 0
	for i < len(a) && i < len(b) && a[i] == b[i] {
		i++
	}
	lo := i - 80
	if lo < 0 {
		lo = 0
	}
	hi := i + 160
	if hi > len(a) {
		hi = len(a)
	}
	return "…" + a[lo:hi] + "…"
}

// explore runs the guidance's deviation-bounded DFS for one query.
func (e *e3) explore(q run.Query) {
	base := &orderRun{}
	b := e.exec(q, base)
	multi := 0
	for _, p := range base.points {
		if p.n >= 2 {
			multi++
		}
	}
	if multi == 0 {
		return
	}
	e.l.Count("queries_with_choice", 1)
	e.l.Count("permutable_points", int64(multi))
	var rec func(prefix [][]int, expect []choicePoint, devs int)
	rec = func(prefix [][]int, expect []choicePoint, devs int) {
		// expect = the points of the execution under `prefix`
		for i := len(prefix); i < len(expect); i++ {
			if expect[i].n < 2 {
				continue
			}
			for _, alt := range permAlphabet(expect[i].n) {
				np := make([][]int, i+1)
				copy(np, prefix)
				np[i] = alt
				o := &orderRun{prefix: np, expect: expect}
				got := e.exec(q, o)
				if o.diverged {
					e.c.Add(&report.Violation{Clause: "replay-divergence", Site: "e3", Check: "e3", Detail: fmt.Sprintf("%s: replaying prefix %v met different choice points: uncaptured nondeterminism", q, np)})
					return
				}
				if got != b {
					e.report(q, b, got, o, "")
				} else {
					e.l.Outcome(string(q.Kind) + got)
				}
				if devs+1 < e.bound {
					rec(np, o.points, devs+1)
				}
			}
		}
	}
	rec(nil, base.points, 0)
	// global deviations: every point reversed / rotated
	for name, g := range map[string]func(n int) []int{
		"all-reversed": func(n int) []int {
			p := make([]int, n)
			for i := range p {
				p[i] = n - 1 - i
			}
			return p
		},
		"all-rotated-1": func(n int) []int {
			p := make([]int, n)
			for i := range p {
				p[i] = (i + 1) % n
			}
			return p
		},
		"all-rotated-half": func(n int) []int {
			p := make([]int, n)
			for i := range p {
				p[i] = (i + n/2) % n
			}
			return p
		},
	} {
		o := &orderRun{global: g}
		if got := e.exec(q, o); got != b {
			e.report(q, b, got, o, name)
		}
	}
}

// tokenBoundaryPositions: start and end of every token (cursor classes).
func tokenBoundaryPositions(src []byte) []hcl.Pos {
	toks, _ := hclsyntax.LexConfig(src, "x", hcl.InitialPos)
	seen := map[int]bool{}
	var out []hcl.Pos
	add := func(p hcl.Pos) {
		if !seen[p.Byte] {
			seen[p.Byte] = true
			out = append(out, run.PosAt(src, p.Byte))
		}
	}
	for _, t := range toks {
		add(t.Range.Start)
		add(t.Range.End)
	}
	return out
}

func c03Queries(cs *explore.Case, all bool) []run.Query {
	src := []byte(cs.Text)
	pos := tokenBoundaryPositions(src)
	if all && len(src) <= 150 {
		pos = run.AllPositions(src, false)
	}
	var qs []run.Query
	for _, k := range allKinds {
		switch {
		case isPosKindP(k):
			for _, p := range pos {
				qs = append(qs, run.Query{Kind: k, File: cs.File, Pos: p})
			}
		case k == run.SymbolsWS:
			qs = append(qs, run.Query{Kind: k, Query: ""})
		default:
			qs = append(qs, run.Query{Kind: k, File: cs.File})
		}
	}
	return qs
}

// c03World: (a) E3 on every query; (b) history independence: repeat after the whole history and
// all ordered pairs of representative queries against a fresh world; (c) fresh-decoder
// differential with reversed insertion order.
func c03World(cs *explore.Case, c *report.Collector, l *report.Local, bound int, thorough bool) {
	w := world.Build(cs.Spec())
	l.Count("worlds", 1)
	qs := c03Queries(cs, thorough)
	first := make([]string, len(qs))
	e := &e3{w: w, cs: cs, c: c, l: l, bound: bound}
	for i, q := range qs {
		first[i] = run.CanonResult(run.Call(w, q))
		l.Count("calls", 1)
		// (b0) the result after the queries before it == the result on a decoder and path context
		// that have never answered a query
		pristine := run.CanonResult(run.Call(world.Build(cs.Spec()), q))
		l.Count("calls", 1)
		l.Count("history_transitions", 1)
		if pristine != first[i] {
			c.Add(&report.Violation{Clause: "history-dependence", Site: kindClass(q.Kind) + ":after-prior-queries", Check: "history", SchemaID: cs.Entry.ID, Files: cs.Files(), Query: report.J(q),
				Detail: fmt.Sprintf("%s: result after %d earlier queries on the same path context differs from the result on a fresh one\n fresh: %s\n after: %s\nfile:\n%s", q, i, diffWindow(pristine, first[i]), diffWindow(first[i], pristine), cs.Text)})
			first[i] = pristine
		}
		if instr.Available {
			e.explore(q)
		}
	}
	// (b0') the same on a path context whose targets/origins were never collected: collection walks
	// the whole configuration and would itself be "history" (a server before its first index)
	ncSpec := cs.Spec()
	for i := range ncSpec.Paths {
		ncSpec.Paths[i].NoCollect = true
	}
	wnc := world.Build(ncSpec)
	for i, q := range qs {
		if q.Kind == run.GotoDef || q.Kind == run.FindRefs {
			continue
		}
		after := run.CanonResult(run.Call(wnc, q))
		pristine := run.CanonResult(run.Call(world.Build(ncSpec), q))
		l.Count("calls", 2)
		l.Count("history_transitions", 1)
		if pristine != after {
			c.Add(&report.Violation{Clause: "history-dependence", Site: kindClass(q.Kind) + ":after-prior-queries:uncollected", Check: "history", SchemaID: cs.Entry.ID, Files: cs.Files(), Query: report.J(q),
				Detail: fmt.Sprintf("%s: on a path context without collected targets/origins the result after %d earlier queries differs from the result as first query\n first: %s\n after: %s\nfile:\n%s", q, i, diffWindow(pristine, after), diffWindow(after, pristine), cs.Text)})
		}
	}
	// (b1) every query repeated after the whole history on the same decoder
	for i, q := range qs {
		again := run.CanonResult(run.Call(w, q))
		l.Count("calls", 1)
		l.Count("history_transitions", 1)
		if again != first[i] {
			c.Add(&report.Violation{Clause: "history-dependence", Site: kindClass(q.Kind) + ":repeat", Check: "history", SchemaID: cs.Entry.ID, Files: cs.Files(), Query: report.J(q),
				Detail: fmt.Sprintf("%s: result after %d other queries differs from the first result\n first: %s\n later: %s\nfile:\n%s", q, 2*len(qs), diffWindow(first[i], again), diffWindow(again, first[i]), cs.Text)})
		}
	}
	// (c) fresh decoder, reversed insertion order
	spec := cs.Spec()
	spec.ReverseInsert = true
	fw := world.Build(spec)
	for i, q := range qs {
		fr := run.CanonResult(run.Call(fw, q))
		l.Count("calls", 1)
		l.Count("fresh_decoder_comparisons", 1)
		if fr != first[i] {
			c.Add(&report.Violation{Clause: "fresh-decoder-difference", Site: string(kindClass(q.Kind)), Check: "fresh", SchemaID: cs.Entry.ID, Files: cs.Files(), Query: report.J(q),
				Detail: fmt.Sprintf("%s: a freshly constructed decoder (maps and files inserted in reversed order) gives a different result\n this: %s\n fresh: %s\nfile:\n%s", q, diffWindow(first[i], fr), diffWindow(fr, first[i]), cs.Text)})
		}
	}
	// (b2) ordered pairs of representative queries: q2 after q1 on a fresh world == q2 fresh
	var reps []int
	seenKind := map[run.Kind]int{}
	for i, q := range qs {
		if seenKind[q.Kind] < 2 && (!isPosKindP(q.Kind) || i%3 == 1 || len(qs) < 40) {
			seenKind[q.Kind]++
			reps = append(reps, i)
		}
	}
	// (b3) one PathDecoder kept for a whole sequence of queries (a client need not ask for a new one per request):
	// its prefill setting is chosen once, the queries of that setting and all others run on it in both orders
	for _, prefill := range []bool{false, true} {
		for _, reversed := range []bool{false, true} {
			pw := world.Build(cs.Spec())
			pd, err := pw.Decoder.Path(pw.Paths[0])
			if err != nil {
				continue
			}
			pd.PrefillRequiredFields = prefill
			order := append([]int{}, reps...)
			// every completion position of the chosen setting, not only the representatives
			for i, q := range qs {
				if (q.Kind == run.Completion && !prefill) || (q.Kind == run.CompletionPrefill && prefill) {
					order = append(order, i)
				}
			}
			if reversed {
				for a, b := 0, len(order)-1; a < b; a, b = a+1, b-1 {
					order[a], order[b] = order[b], order[a]
				}
			}
			for _, i := range order {
				q := qs[i]
				if (q.Kind == run.Completion && prefill) || (q.Kind == run.CompletionPrefill && !prefill) || q.Path != 0 {
					continue
				}
				switch q.Kind {
				case run.SymbolsWS, run.GotoDef, run.FindRefs, run.CodeLens:
					continue // not served by a PathDecoder
				}
				var res run.Result
				if p := run.SafeCall(func() {
					if q.Kind == run.Completion || q.Kind == run.CompletionPrefill {
						v, err := pd.CompletionAtPos(context.Background(), q.File, q.Pos)
						res = run.Result{Val: v, Err: err}
					} else {
						res = run.CallPD(pd, q)
					}
				}); p != nil {
					continue
				}
				got := run.CanonResult(res)
				l.Count("calls", 1)
				l.Count("history_transitions", 1)
				if got != first[i] {
					c.Add(&report.Violation{Clause: "history-dependence", Site: kindClass(q.Kind) + ":on-a-kept-path-decoder", Check: "history", SchemaID: cs.Entry.ID, Files: cs.Files(), Query: report.J(q),
						Detail: fmt.Sprintf("%s on a PathDecoder that served other queries before (prefill %v) differs from the same query on a fresh one\n fresh: %s\n kept:  %s\nfile:\n%s", q, prefill, diffWindow(first[i], got), diffWindow(got, first[i]), cs.Text)})
				}
			}
		}
	}
	if !thorough && len(cs.Text) > 120 {
		return
	}
	for _, i1 := range reps {
		pw := world.Build(cs.Spec())
		run.Call(pw, qs[i1])
		for _, i2 := range reps {
			got := run.CanonResult(run.Call(pw, qs[i2]))
			l.Count("calls", 1)
			l.Count("history_transitions", 1)
			if got != first[i2] {
				c.Add(&report.Violation{Clause: "history-dependence", Site: kindClass(qs[i2].Kind) + ":after:" + kindClass(qs[i1].Kind), Check: "history", SchemaID: cs.Entry.ID, Files: cs.Files(), Query: report.J(qs[i2]),
					Detail: fmt.Sprintf("%s after %s (and others) differs from the same query on a fresh decoder\n fresh: %s\n after: %s\nfile:\n%s", qs[i2], qs[i1], diffWindow(first[i2], got), diffWindow(got, first[i2]), cs.Text)})
			}
		}
	}
}

// C03: results are a function of the inputs.
func C03(tier string) int {
	c := report.NewCollector("C03")
	cases := mcWorlds(tier)
	si, sn := explore.Shard()
	bound := 1
	if tier == "thorough" {
		bound = 2
	}
	if sn == 0 {
		if err := explore.RunSharded("C03", tier, 16, c); err != nil {
			fmt.Println("HARNESS ERROR:", err)
			return 2
		}
	} else {
		l := report.NewLocal()
		deadline := explore.Deadline(tier)
		for i := range cases {
			if i%sn != si {
				continue
			}
			if cases[i].Family == "prefix" && tier != "thorough" && (i/sn)%3 != 0 {
				continue // quick: a third of the broken subset
			}
			if timeUp(deadline) {
				c.Inexhaustive(fmt.Sprintf("internal deadline: shard %d stopped at world %d of %d", si, i, len(cases)))
				break
			}
			c03World(&cases[i], c, l, bound, tier == "thorough")
		}
		if si == 0 {
			c.Sample(map[string]any{"world": cases[0].Entry.ID, "file": cases[0].Text, "exploration": "base run records the (site, n) of every map range met; each single point is re-run with every alternative permutation of the alphabet; results compared canonically"})
		}
		c.Merge(l)
		return explore.FinishShard(c)
	}
	if !instr.Available {
		c.Inexhaustive("instrumented build unavailable: map-order exploration (E3) skipped; only history/fresh-decoder parts ran")
	}
	ms, ys, ps, up := instr.Stats()
	execs := c.Counter("executions")
	bites := []string{"history_transitions", "fresh_decoder_comparisons"}
	if instr.Available {
		bites = append(bites, "executions", "permutable_points")
	}
	return c.Finish(report.FinishOpts{
		Tier: tier, Level: "model_checking", EvalCounter: "calls",
		Rule: fmt.Sprintf("(a) E3: every dynamic occurrence of a `range` over a map in the instrumented library is a choice point (canonical key order by default); for every (world, query) all choice vectors with <= %d deviations are executed (alphabet per point: all n! orders for n<=4, else reversal + rotations + adjacent transpositions + 2 interleavings) plus 3 global deviations (all reversed / rotated); oracle: canonical result == result under canonical order (diagnostics as multiset). (b) every query repeated after the whole history, and all ordered pairs of representative queries on a fresh decoder == single query on a fresh decoder. (c) decoder rebuilt from the spec with reversed insertion order gives equal results.", bound),
		Assumptions: []string{
			"map iteration inside hcl, cty and the standard library is not behind the seam",
			"for n>4 keys the permutation alphabet is a stated subset of the n! orders",
			"history closure relies on C04 (1 state per world); the pairwise check is snapshot-independent",
		},
		BiteCounters: bites,
		Extra: map[string]any{
			"states": execs + c.Counter("worlds"), "transitions": c.Counter("choice_points_decided") + c.Counter("history_transitions"), "traces_validated_against_impl": execs,
			"deviation_bound": bound,
			"instrumentation": map[string]int{"map_sites": ms, "yield_points": ys, "write_probes": ps, "unprobed_write_sites": up},
		},
	})
}
