package props

import (
	"fmt"
	"reflect"
	"regexp"
	"strings"

	"github.com/hashicorp/hcl-lang/schema"
	"github.com/hashicorp/hcl/v2"
	"github.com/hashicorp/hcl/v2/hclsyntax"

	"verif/internal/explore"
	"verif/internal/gen"
	"verif/internal/instr"
	"verif/internal/report"
	"verif/internal/run"
	"verif/internal/snap"
	"verif/internal/world"
)

// mcWorlds is the world list shared by the model-checking properties C03, C04, C05: every
// structure template with its seeds, plus representative one-constraint bodies with the value
// texts that drive distinct code paths.
func mcWorlds(tier string) []explore.Case {
	cat := gen.Catalogue(tier)
	var out []explore.Case
	consTexts := []string{`"foo"`, `true`, `decl.foo`, `{ foo = "x", bar = true }`, `["a", "b"]`, `fn("a", decl.foo)`, `"a${decl.foo.bar}b"`,
		`provider::aws::x`, `true ? decl.foo : "b"`, `[for v in decl.foo : v if v]`, `{ fo`, `list(string)`, `decl.foo[decl.foo.bar]`,
		// blanks inside a traversal, in a template, around operators: prefixes the queries may want to normalise
		`decl. fo`, `"${decl .fo}"`, `decl.foo [ 0 ]`,
		// a for expression whose value mentions declarations, an empty value
		`{for k, v in decl.foo : k => decl.foo.bar}`, ``}
	want := map[string]bool{}
	for _, n := range []string{"LiteralType{string}", "LiteralType{object}", "LiteralValue{\"foo\"}", "Keyword{kwd}", "TypeDeclaration",
		"Reference{OfType string}", "Reference{Address sa}", "Any{string}", "Any{object}", "Any{dynamic}", "Any{list_string}",
		"List{Any{string}}", "Set{LiteralType{string}}", "Map{Any{string}}", "Tuple{Any{string},LiteralType{bool}}",
		"Object{foo:Any{string},bar:LiteralType{bool}}", "Object{foo:LiteralType{string},bar:LiteralType{bool},interp}",
		"OneOf{Any{string},LiteralType{bool}}", "OneOf{LiteralType{bool},Reference{OfType string}}",
		// types whose cty representation holds maps of its own (attribute types, optional attributes)
		"Any{object_any_mix}", "LiteralType{object_optional}", "Any{object_optional}"} {
		want[n] = true
	}
	for i := range cat {
		e := &cat[i]
		switch e.Family {
		case "struct":
			// multi-file world: all seeds of the entry as separate files of one path
			if len(e.Seeds) >= 2 {
				var more []world.FileSpec
				for si, s := range e.Seeds[1:] {
					more = append(more, world.FileSpec{Name: fmt.Sprintf("f%d.tf", 9-si), Text: s})
				}
				out = append(out, explore.Case{Entry: e, File: "main.tf", Text: e.Seeds[0], More: more, Family: "multifile", PosTo: -1})
			}
			for si, s := range e.Seeds {
				if tier != "thorough" && si >= 5 {
					break
				}
				out = append(out, explore.Case{Entry: e, File: "main.tf", Text: s, Family: "seed", PosTo: -1})
				// broken subset: prefixes (every 4th byte in quick, every byte in thorough)
				step := 4
				if tier == "thorough" {
					step = 1
				}
				for n := 1; n < len(s); n += step {
					out = append(out, explore.Case{Entry: e, File: "main.tf", Text: s[:n], Family: "prefix", PosTo: -1})
				}
			}
		case "cons":
			if e.Cons == nil || !want[e.Cons.Name] {
				continue
			}
			for ti, v := range consTexts {
				if tier != "thorough" && ti%2 == 1 && !strings.HasPrefix(e.Cons.Name, "Any{string}") && !strings.Contains(e.Cons.Name, "{object_") {
					continue
				}
				seeds := gen.ConsSeeds(v)
				out = append(out, explore.Case{Entry: e, File: "main.tf", Text: seeds[1], Family: "seed", PosTo: -1})
				out = append(out, explore.Case{Entry: e, File: "main.tf", Text: seeds[3], Family: "seed", PosTo: -1})
			}
		}
	}
	return out
}

// callerRoots: everything the caller supplied (reachable from the path contexts, the decoder
// context and the path reader's table).
func callerRoots(w *world.World) []any {
	var roots []any
	for i := range w.Paths {
		roots = append(roots, w.Ctx(i))
	}
	roots = append(roots, &w.DecCtx, w.Reader.Ctxs)
	return roots
}

// worldRoots: everything a query could touch = caller-supplied data + the library's own
// package-level variables (instrumented build only).
func worldRoots(w *world.World) []any {
	return append(callerRoots(w), instr.Globals()...)
}

// registerBarrier registers caller-owned memory (tag 1) and the library's package-level state
// (tag 2) with the write barrier.
func registerBarrier(w *world.World) int {
	instr.BarrierReset()
	n := snap.Walk(&snap.Visitor{
		Region: func(p, size uintptr) { instr.BarrierAddRegion(p, size, 1) },
		Map:    func(id uintptr) { instr.BarrierAddMap(id, 1) },
	}, callerRoots(w)...)
	if g := instr.Globals(); len(g) > 0 {
		n += snap.Walk(&snap.Visitor{
			Region: func(p, size uintptr) { instr.BarrierAddRegion(p, size, 2) },
			Map:    func(id uintptr) { instr.BarrierAddMap(id, 2) },
		}, g...)
	}
	instr.BarrierSeal()
	return n
}

var reLine = regexp.MustCompile(`:\d+ `)

// siteClass removes the line number from a site description (signatures survive code motion).
func siteClass(s string) string { return reLine.ReplaceAllString(s, " ") }

// errorQueries are calls that must return errors; they too must leave everything untouched.
func errorQueries(cs *explore.Case) []run.Query {
	far := hcl.Pos{Line: 999, Column: 1, Byte: 99999}
	return []run.Query{
		{Kind: run.Completion, File: "nosuch.tf", Pos: hcl.InitialPos},
		{Kind: run.Completion, File: cs.File, Pos: far},
		{Kind: run.Hover, File: cs.File, Pos: far},
		{Kind: run.SemTok, File: "nosuch.tf"},
		{Kind: run.ValidateFile, File: "nosuch.tf"},
		{Kind: run.GotoDef, File: cs.File, Pos: far},
		{Kind: run.Hover, Path: 7, File: cs.File, Pos: hcl.InitialPos},
	}
}

func c04World(cs *explore.Case, c *report.Collector, l *report.Local, perCall bool) {
	w := world.Build(cs.Spec())
	roots := callerRoots(w)
	h0 := snap.Hash(roots...)
	g0 := snap.Hash(instr.Globals()...)
	states := map[uint64]bool{h0: true}
	if instr.Available {
		n := registerBarrier(w)
		l.Count("barrier_objects_registered", int64(n))
		instr.BarrierEnable(true)
		defer instr.BarrierEnable(false)
	}
	src := []byte(cs.Text)
	positions := run.AllPositions(src, false)
	l.Count("worlds", 1)
	checkBarrier := func(q run.Query) {
		if !instr.Available {
			return
		}
		for id := range instr.BarrierHitsG() {
			// not caller-supplied data: no C04 violation, but hidden state that histories could depend on
			c.Inexhaustive("the library writes its own package-level state at " + siteClass(instr.Site(id)) + ": the 1-state closure argument does not cover it (C03 examines results directly)")
		}
		hits := instr.BarrierHits()
		if len(hits) == 0 {
			if len(instr.BarrierHitsG()) > 0 {
				instr.BarrierClearHits()
			}
			return
		}
		for id := range hits {
			s := instr.Site(id)
			c.Add(&report.Violation{Clause: "write-to-caller-memory", Site: siteClass(s), Check: "sweep", SchemaID: cs.Entry.ID, Files: cs.Files(), Query: report.J(q),
				Detail: fmt.Sprintf("%s: the statement at %s wrote into memory reachable from the caller's path context (write barrier)\nfile:\n%s", q, s, cs.Text)})
		}
		instr.BarrierClearHits()
	}
	var batch []run.Query
	flush := func(kind run.Kind) {
		h := snap.Hash(roots...)
		if h != h0 {
			// bisect by deterministic replay on a fresh world, hashing after every call
			fw := world.Build(cs.Spec())
			fr := callerRoots(fw)
			fh := snap.Hash(fr...)
			culprit := "(not reproduced on replay)"
			for _, q := range batch {
				run.Call(fw, q)
				if nh := snap.Hash(fr...); nh != fh {
					culprit = q.String()
					break
				}
			}
			c.Add(&report.Violation{Clause: "snapshot-changed", Site: string(kindClass(kind)), Check: "sweep", SchemaID: cs.Entry.ID, Files: cs.Files(),
				Detail: fmt.Sprintf("deep snapshot of the path context changed during %s queries; first mutating call: %s\nfile:\n%s", kind, culprit, cs.Text)})
			states[h] = true
			h0 = h
		}
		if g := snap.Hash(instr.Globals()...); g != g0 {
			c.Inexhaustive(fmt.Sprintf("package-level state of the library changed during %s queries (not caller data; histories may depend on it)", kind))
			g0 = g
		}
		batch = batch[:0]
	}
	call := func(q run.Query) {
		run.Call(w, q)
		l.Count("calls", 1)
		l.Count("transitions", 1)
		batch = append(batch, q)
		checkBarrier(q)
		if perCall {
			flush(q.Kind)
		}
	}
	for _, k := range allKinds {
		switch {
		case isPosKindP(k):
			for _, p := range positions {
				call(run.Query{Kind: k, File: cs.File, Pos: p})
			}
		case k == run.SymbolsWS:
			call(run.Query{Kind: k, Query: ""})
			call(run.Query{Kind: k, Query: "a"})
		default:
			call(run.Query{Kind: k, File: cs.File})
		}
		flush(k)
	}
	for _, q := range errorQueries(cs) {
		call(q)
	}
	flush("error-queries")
	l.Count("states", int64(len(states)))
	l.Count("barrier_probes", instr.BarrierProbes())
	l.OutcomeHash(h0)
	l.Count("nontrivial", 1)
}

func isPosKindP(k run.Kind) bool {
	for _, p := range run.PosKinds {
		if p == k {
			return true
		}
	}
	return false
}

// derivedFresh checks that merged block body schemas share no container the decoder writes to
// with the caller's schema, for every (block schema, block) of the structure universe.
func derivedFresh(c *report.Collector, l *report.Local, tier string) {
	if !instr.Available {
		return
	}
	for _, e := range gen.Structures() {
		e := e
		for _, seed := range e.Seeds {
			f := world.ParseFile("main.tf", seed)
			body, ok := f.Body.(*hclsyntax.Body)
			if !ok {
				continue
			}
			root := e.Mk()
			var visit func(b *hclsyntax.Body, bs *schema.BodySchema, depth int)
			visit = func(b *hclsyntax.Body, bs *schema.BodySchema, depth int) {
				if bs == nil || depth > 4 {
					return
				}
				for _, blk := range b.Blocks {
					bsch, ok := bs.Blocks[blk.Type]
					if !ok {
						continue
					}
					before := snap.Hash(bsch)
					var merged *schema.BodySchema
					if p := run.SafeCall(func() { merged = instr.MergeBlockBodySchemas(blk.AsHCLBlock(), bsch) }); p != nil || merged == nil {
						continue
					}
					l.Count("derived_schemas", 1)
					in, out := map[uintptr]string{}, map[uintptr]string{}
					writtenContainers(reflect.ValueOf(bsch), in, "")
					writtenContainers(reflect.ValueOf(merged), out, "")
					for id, where := range out {
						if iw, ok := in[id]; ok {
							c.Add(&report.Violation{Clause: "derived-schema-aliases-input", Site: firstSeg(where), Check: "derived", SchemaID: e.ID,
								Detail: fmt.Sprintf("merged schema%s is the same container as input block schema%s (block %q)\nfile:\n%s", where, iw, blk.Type, seed)})
							break
						}
					}
					// mutation probe: what the decoder does after derivation
					merged.Attributes["zz_probe"] = &schema.AttributeSchema{}
					merged.Blocks["zz_probe"] = &schema.BlockSchema{}
					merged.TargetableAs = append(merged.TargetableAs, &schema.Targetable{})
					merged.ImpliedOrigins = append(merged.ImpliedOrigins, schema.ImpliedOrigin{})
					if merged.Extensions != nil {
						merged.Extensions.Count = !merged.Extensions.Count
					}
					for _, nb := range merged.Blocks {
						if nb.Body != nil {
							nb.Body.HoverURL += "~"
							if nb.Body.Extensions != nil {
								nb.Body.Extensions.SelfRefs = !nb.Body.Extensions.SelfRefs
							}
						}
					}
					if snap.Hash(bsch) != before {
						c.Add(&report.Violation{Clause: "derived-schema-mutation-leaks", Site: "MergeBlockBodySchemas", Check: "derived", SchemaID: e.ID,
							Detail: fmt.Sprintf("mutating the merged schema of block %q changed the caller's block schema\nfile:\n%s", blk.Type, seed)})
					}
					delete(merged.Attributes, "zz_probe")
					delete(merged.Blocks, "zz_probe")
					// descend with a fresh merged schema
					var m2 *schema.BodySchema
					run.SafeCall(func() { m2 = instr.MergeBlockBodySchemas(blk.AsHCLBlock(), bsch) })
					visit(blk.Body, m2, depth+1)
				}
			}
			visit(body, root, 0)
		}
	}
}

// writtenContainers collects the identities of the containers the decoder writes to after
// derivation: attribute/block maps, TargetableAs / ImpliedOrigins backing arrays, *BodySchema,
// *BlockSchema, *BodyExtensions, *LabelSchema. Dependent *AttributeSchema nodes placed by pointer
// into the fresh map are not collected (nothing writes to them).
func writtenContainers(v reflect.Value, out map[uintptr]string, path string) {
	if !v.IsValid() {
		return
	}
	switch v.Kind() {
	case reflect.Ptr:
		if v.IsNil() {
			return
		}
		switch v.Interface().(type) {
		case *schema.BodySchema, *schema.BlockSchema, *schema.BodyExtensions, *schema.LabelSchema:
			if _, dup := out[v.Pointer()]; dup {
				return
			}
			out[v.Pointer()] = path
			writtenContainers(v.Elem(), out, path)
		}
	case reflect.Struct:
		t := v.Type()
		for i := 0; i < v.NumField(); i++ {
			if !t.Field(i).IsExported() {
				continue
			}
			switch t.Field(i).Name {
			case "Blocks", "Attributes", "TargetableAs", "ImpliedOrigins", "Extensions", "Body", "DependentBody", "Labels":
				writtenContainers(v.Field(i), out, path+"."+t.Field(i).Name)
			}
		}
	case reflect.Map:
		if v.IsNil() {
			return
		}
		out[v.Pointer()] = path
		it := v.MapRange()
		for it.Next() {
			writtenContainers(it.Value(), out, fmt.Sprintf("%s[%v]", path, it.Key()))
		}
	case reflect.Slice:
		if v.IsNil() || v.Cap() == 0 {
			return
		}
		out[v.Pointer()] = path
		for i := 0; i < v.Len(); i++ {
			writtenContainers(v.Index(i), out, fmt.Sprintf("%s[%d]", path, i))
		}
	}
}

// C04: queries never modify what the caller supplied.
func C04(tier string) int {
	c := report.NewCollector("C04")
	cases := mcWorlds(tier)
	si, sn := explore.Shard()
	if sn == 0 {
		// parent: shard over processes (the barrier runtime is process-global)
		if err := explore.RunSharded("C04", tier, 16, c); err != nil {
			fmt.Println("HARNESS ERROR:", err)
			return 2
		}
	} else {
		l := report.NewLocal()
		deadline := explore.Deadline(tier)
		for i := range cases {
			if i%sn != si {
				continue
			}
			if timeUp(deadline) {
				c.Inexhaustive(fmt.Sprintf("internal deadline: shard %d stopped at world %d of %d", si, i, len(cases)))
				break
			}
			c04World(&cases[i], c, l, tier == "thorough" || len(cases[i].Text) <= 60)
		}
		if si == 0 {
			derivedFresh(c, l, tier)
			c.Sample(map[string]any{"world": cases[0].Entry.ID, "file": cases[0].Text, "transitions": "every entry point at every position + error queries", "invariant": "deep snapshot hash unchanged and no barrier hit"})
		}
		c.Merge(l)
		return explore.FinishShard(c)
	}
	ms, ys, ps, up := instr.Stats()
	states := c.Counter("states")
	trans := c.Counter("transitions")
	return c.Finish(report.FinishOpts{
		Tier: tier, Level: "model_checking", EvalCounter: "calls",
		Rule: "E4: per world the state is the canonical deep hash of every PathContext (schema graph, files and bytes up to capacity, targets, origins, functions, validators), the decoder context and all package variables; every entry point at every rune-boundary position (plus error-returning calls) is a transition; invariant: successor state == predecessor state (hash compared per batch, per call on small worlds / thorough) and, in the instrumented build, no executed write statement lands in registered caller-owned memory (write barrier at statement granularity). Closed graph (1 state per world) => holds for histories of every length. Derived schemas: no written-to container of MergeBlockBodySchemas' result is identical to one of the input, mutation probes leave the input unchanged.",
		Assumptions: []string{
			"writes performed inside hcl/cty/stdlib on shared arguments are not probed by the barrier (the value snapshot backs this up)",
			"dependent *AttributeSchema nodes shared by pointer in merged schemas are not flagged: nothing writes to them",
		},
		BiteCounters: []string{"transitions", "barrier_probes", "derived_schemas"},
		Extra: map[string]any{
			"states": states, "transitions": trans, "traces_validated_against_impl": trans,
			"instrumentation": map[string]int{"map_sites": ms, "yield_points": ys, "write_probes": ps, "unprobed_write_sites": up},
		},
	})
}

// firstSeg keeps the first path component (".Attributes", ".Blocks", ...) of a container path.
func firstSeg(p string) string {
	p = strings.TrimPrefix(p, ".")
	if i := strings.IndexAny(p, ".["); i >= 0 {
		p = p[:i]
	}
	return "." + p
}
