package props

import (
	"fmt"
	"os"
	"os/exec"
	"path/filepath"
	"regexp"
	"strings"
	"sync"

	"verif/internal/explore"
	"verif/internal/gen"
	"verif/internal/instr"
	"verif/internal/report"
	"verif/internal/run"
	"verif/internal/snap"
	"verif/internal/world"
)

// collision worlds: both threads work inside the same block with a dependent body, under
// DynamicBlocks, in the same wide body, at the same cursor; hooks enabled.
func c05Worlds(tier string) []explore.Case {
	cat := gen.Catalogue("quick")
	find := func(id string) *gen.Entry {
		for i := range cat {
			if cat[i].ID == id {
				return &cat[i]
			}
		}
		return nil
	}
	type pick struct {
		id   string
		seed int
		text string
	}
	picks := []pick{
		{"S:dep-label", 2, ""}, {"S:ext-CFDS", 1, ""}, {"C:Any{string}/CFDS", -1, "blk {\n  count = 2\n  attr = provider::aws::x\n  nb {\n    attr = fn(decl.foo)\n  }\n}\ndecl \"foo\" {\n  bar = \"x\"\n}\nattr2 = \"h\"\n"},
	}
	if tier == "thorough" {
		picks = append(picks, pick{"S:wide-14", 1, ""}, pick{"S:dep-attr", 0, ""}, pick{"S:targetable-block", 0, ""}, pick{"S:addr-forms", 2, ""}, pick{"S:dep-2level", 0, ""},
			pick{"S:dep-label", 0, ""}, pick{"S:ext-CFDS", 0, ""}, pick{"C:Object{foo:Any{string},bar:LiteralType{bool}}/CFDS", -1, "attr = { foo = decl.foo, bar = true }\ndecl \"foo\" {\n  bar = \"x\"\n}\n"})
	} else {
		picks = append(picks, pick{"S:wide-14", 1, ""}, pick{"S:dep-2level", 0, ""})
	}
	// type declarations completed at several cursors (type name, inside parentheses, empty value)
	picks = append(picks, pick{"C:TypeDeclaration/CFDS", -1, "attr = list()\nblk {\n  attr = \n}\nattr2 = ma\n"})
	// a dependent body whose nested block has extensions of its own, under DynamicBlocks; the same
	// nested block schema is reachable from a second block type
	picks = append(picks, pick{"S:dep-nested-ext", 0, ""})
	// reference completion on the line a block-local declaration ends on (the walk over the collected targets visits
	// that declaration), next to a query that resolves the same declaration
	picks = append(picks, pick{"S:ext-CFDS", -1, c05SelfText})
	var out []explore.Case
	for _, p := range picks {
		e := find(p.id)
		if e == nil {
			continue
		}
		t := p.text
		if p.seed >= 0 && p.seed < len(e.Seeds) {
			t = e.Seeds[p.seed]
		}
		out = append(out, explore.Case{Entry: e, File: "main.tf", Text: t, Family: "collision", PosTo: -1})
	}
	return out
}

// c05Anchors: for some worlds the two cursors are placed right behind these texts.
const c05SelfText = "b \"n\" {\n  ya = 1\n  xa = \n}\nb \"m\" {\n  xa = self.xa\n}\n"

var c05Anchors = map[string][]string{
	c05SelfText: {"  xa = ", "self.xa"},
	"attr = list()\nblk {\n  attr = \n}\nattr2 = ma\n": {"attr = list(", "attr2 = ma"},
}

// c05Queries: one query per entry point (cursor queries at two positions inside the file).
func c05Queries(cs *explore.Case, tier string) []run.Query {
	src := []byte(cs.Text)
	tb := tokenBoundaryPositions(src)
	var ps []int
	if len(tb) > 0 {
		ps = []int{len(tb) * 2 / 5, len(tb) * 4 / 5}
	}
	// explicit cursors: right behind each "|>" marker-free anchor text listed for the world (see c05Anchors)
	for n, a := range c05Anchors[cs.Text] {
		if i := strings.Index(cs.Text, a); i >= 0 && n < len(ps) {
			for j, p := range tb {
				if p.Byte == i+len(a) {
					ps[n] = j
				}
			}
		}
	}
	if i := strings.Index(cs.Text, "provider::aws::x"); i >= 0 {
		// the cursor class that exercises function-name recovery over the raw file bytes
		for j, p := range tb {
			if p.Byte == i+len("provider::aws::x") {
				ps[0] = j
			}
		}
	}
	var qs []run.Query
	for _, k := range allKinds {
		switch {
		case isPosKindP(k):
			for n, pi := range ps {
				if tier != "thorough" && n == 1 && (k == run.GotoDef || k == run.FindRefs || k == run.Signature || k == run.CompletionPrefill) {
					continue
				}
				qs = append(qs, run.Query{Kind: k, File: cs.File, Pos: tb[pi]})
			}
		case k == run.SymbolsWS:
			qs = append(qs, run.Query{Kind: k, Query: ""})
		case k == run.CodeLens:
		default:
			qs = append(qs, run.Query{Kind: k, File: cs.File})
		}
	}
	return qs
}

type c05Scenario struct {
	cs   *explore.Case
	w    *world.World
	qs   []run.Query
	seq  []string // sequential canonical results
	n    []int    // yields per query when run alone
	h0   uint64
	root []any
}

func c05Setup(cs *explore.Case, tier string, c *report.Collector, l *report.Local) *c05Scenario {
	sc := &c05Scenario{cs: cs, w: world.Build(cs.Spec())}
	sc.qs = c05Queries(cs, tier)
	sc.root = worldRoots(sc.w)
	sc.h0 = snap.Hash(sc.root...)
	registerBarrier(sc.w)
	instr.BarrierEnable(true)
	// (i) solo runs under the write barrier with the shared-state hash evaluated at EVERY yield
	for _, q := range sc.qs {
		q := q
		var badSite = -1
		hashes := 0
		res, err := explore.RunSchedule([]func() any{func() any { return run.Call(sc.w, q) }}, nil, func(t, pc, site int) {
			hashes++
			if badSite < 0 && snap.Hash(sc.root...) != sc.h0 {
				badSite = site
			}
		})
		l.Count("solo_runs", 1)
		l.Count("solo_state_hashes", int64(hashes))
		l.Count("calls", 1)
		if err != nil {
			c.Add(&report.Violation{Clause: "blocked", Site: string(q.Kind), Check: "e5", Detail: err.Error()})
			continue
		}
		sc.n = append(sc.n, res[0].Yields)
		r, _ := res[0].Val.(run.Result)
		sc.seq = append(sc.seq, run.CanonResult(r))
		if badSite >= 0 {
			c.Add(&report.Violation{Clause: "shared-state-changed-mid-query", Site: kindClass(q.Kind) + "@" + siteClass(instr.Site(badSite)), Check: "e5", SchemaID: cs.Entry.ID, Files: cs.Files(), Query: report.J(q),
				Detail: fmt.Sprintf("%s: the shared path context's deep hash differed from its initial value at yield %s (another thread reading there would see it)\nfile:\n%s", q, instr.Site(badSite), cs.Text)})
			sc.h0 = snap.Hash(sc.root...)
		}
		c05Barrier(sc, c, fmt.Sprintf("solo %s", q))
	}
	return sc
}

func c05Barrier(sc *c05Scenario, c *report.Collector, what string) {
	hits := map[int]int{}
	for id, n := range instr.BarrierHits() {
		hits[id] += n
	}
	for id, n := range instr.BarrierHitsG() {
		hits[id] += n
	}
	for id := range hits {
		s := instr.Site(id)
		if instr.SyncImported() {
			// with synchronisation primitives in the library a write to shared state may be
			// properly locked: not a violation by itself (results and the race adjunct decide)
			c.Inexhaustive("write to shared state at " + siteClass(s) + " in a library that imports sync: may be locked; not decided by the barrier")
			continue
		}
		c.Add(&report.Violation{Clause: "write-to-shared-memory", Site: siteClass(s), Check: "e5", SchemaID: sc.cs.Entry.ID, Files: sc.cs.Files(),
			Detail: fmt.Sprintf("%s: the statement at %s wrote into memory shared between the threads (write barrier)\nfile:\n%s", what, s, sc.cs.Text)})
	}
	if len(hits) > 0 {
		instr.BarrierClearHits()
	}
}

// c05Pair explores the complete product state space of two queries: every grid state (i,j) and
// every edge is covered by the schedule families "A runs k yields, B to completion, A rest" for
// every k and symmetrically.
func c05Pair(sc *c05Scenario, a, b int, c *report.Collector, l *report.Local, capExec int) {
	qa, qb := sc.qs[a], sc.qs[b]
	N, M := sc.n[a], sc.n[b]
	bodies := func() []func() any {
		return []func() any{
			func() any { return run.Call(sc.w, qa) },
			func() any { return run.Call(sc.w, qb) },
		}
	}
	check := func(schedule []explore.Segment) {
		res, err := explore.RunSchedule(bodies(), schedule, nil)
		l.Count("executions", 1)
		l.Count("calls", 2)
		if err != nil {
			c.Add(&report.Violation{Clause: "blocked", Site: kindClass(qa.Kind) + "||" + kindClass(qb.Kind), Check: "e5", Detail: fmt.Sprintf("schedule %v: %v", schedule, err)})
			return
		}
		for t, q := range []run.Query{qa, qb} {
			want := sc.seq[[]int{a, b}[t]]
			got := ""
			if res[t].Panicked != "" {
				got = "PANIC " + res[t].Panicked
			} else if r, ok := res[t].Val.(run.Result); ok {
				got = run.CanonResult(r)
			}
			if got != want {
				c.Add(&report.Violation{Clause: "concurrent-result-differs", Site: kindClass(q.Kind) + "-while-" + kindClass([]run.Query{qb, qa}[t].Kind), Check: "e5", SchemaID: sc.cs.Entry.ID, Files: sc.cs.Files(), Query: report.J(q),
					Extra:  report.J(map[string]any{"schedule": schedule, "other": []run.Query{qb, qa}[t]}),
					Detail: fmt.Sprintf("%s interleaved with %s under schedule %v differs from its sequential result\n sequential: %s\n concurrent: %s\nfile:\n%s", q, []run.Query{qb, qa}[t], schedule, diffWindow(want, got), diffWindow(got, want), sc.cs.Text)})
			}
		}
		c05Barrier(sc, c, fmt.Sprintf("%s || %s schedule %v", qa, qb, schedule))
	}
	step := 1
	if capExec > 0 && N+M+2 > capExec {
		step = (N + M + 2 + capExec - 1) / capExec
		l.Count("pairs_capped", 1)
	}
	for k := 0; k <= N; k += step {
		check([]explore.Segment{{T: 0, Steps: k}, {T: 1, Steps: -1}})
	}
	for k := 0; k <= M; k += step {
		check([]explore.Segment{{T: 1, Steps: k}, {T: 0, Steps: -1}})
	}
	if step == 1 {
		l.Count("grid_states", int64((N+1)*(M+1)))
		l.Count("grid_edges", int64(N*(M+1)+M*(N+1)))
	} else {
		l.Count("grid_states", int64(((N/step)+1)*(M+1)+((M/step)+1)*(N+1)))
		l.Count("grid_edges", int64(((N/step)+1)*M+((M/step)+1)*N))
	}
	l.Count("pairs", 1)
	if snap.Hash(sc.root...) != sc.h0 {
		c.Add(&report.Violation{Clause: "shared-state-changed", Site: kindClass(qa.Kind) + "||" + kindClass(qb.Kind), Check: "e5", SchemaID: sc.cs.Entry.ID, Files: sc.cs.Files(),
			Detail: fmt.Sprintf("shared path context changed after interleavings of %s and %s\nfile:\n%s", qa, qb, sc.cs.Text)})
		sc.h0 = snap.Hash(sc.root...)
	}
	l.Outcome(fmt.Sprint(sc.cs.Entry.ID, qa, qb, N, M))
	l.Count("nontrivial", 1)
}

// c05Bound2 is the preemption-bounded cross-check (two preemptions) for small pairs.
func c05Bound2(sc *c05Scenario, a, b int, c *report.Collector, l *report.Local) {
	qa, qb := sc.qs[a], sc.qs[b]
	N, M := sc.n[a], sc.n[b]
	if N*M > 40000 {
		return
	}
	for i := 1; i < N; i++ {
		for j := 1; j < M; j++ {
			res, err := explore.RunSchedule([]func() any{
				func() any { return run.Call(sc.w, qa) },
				func() any { return run.Call(sc.w, qb) },
			}, []explore.Segment{{T: 0, Steps: i}, {T: 1, Steps: j}, {T: 0, Steps: -1}}, nil)
			l.Count("executions", 1)
			l.Count("bound2_executions", 1)
			l.Count("calls", 2)
			if err != nil {
				continue
			}
			for t, idx := range []int{a, b} {
				r, _ := res[t].Val.(run.Result)
				if got := run.CanonResult(r); got != sc.seq[idx] && res[t].Panicked == "" {
					c.Add(&report.Violation{Clause: "concurrent-result-differs", Site: kindClass(sc.qs[idx].Kind) + ":bound2", Check: "e5", SchemaID: sc.cs.Entry.ID, Files: sc.cs.Files(),
						Detail: fmt.Sprintf("%s || %s with preemptions at (%d,%d): result differs from sequential", qa, qb, i, j)})
				}
			}
			c05Barrier(sc, c, "bound2")
		}
	}
}

// c05Triple: three threads, coarse grid of (k1,k2) switch points.
func c05Triple(sc *c05Scenario, idx [3]int, c *report.Collector, l *report.Local) {
	N, M := sc.n[idx[0]], sc.n[idx[1]]
	s1, s2 := N/12+1, M/12+1
	for k1 := 0; k1 <= N; k1 += s1 {
		for k2 := 0; k2 <= M; k2 += s2 {
			res, err := explore.RunSchedule([]func() any{
				func() any { return run.Call(sc.w, sc.qs[idx[0]]) },
				func() any { return run.Call(sc.w, sc.qs[idx[1]]) },
				func() any { return run.Call(sc.w, sc.qs[idx[2]]) },
			}, []explore.Segment{{T: 0, Steps: k1}, {T: 1, Steps: k2}, {T: 2, Steps: -1}}, nil)
			l.Count("executions", 1)
			l.Count("triple_executions", 1)
			l.Count("calls", 3)
			if err != nil {
				continue
			}
			for t := 0; t < 3; t++ {
				r, _ := res[t].Val.(run.Result)
				if got := run.CanonResult(r); got != sc.seq[idx[t]] {
					c.Add(&report.Violation{Clause: "concurrent-result-differs", Site: kindClass(sc.qs[idx[t]].Kind) + ":triple", Check: "e5", SchemaID: sc.cs.Entry.ID, Files: sc.cs.Files(),
						Detail: fmt.Sprintf("three threads %v switch points (%d,%d): result of %s differs from sequential", idx, k1, k2, sc.qs[idx[t]])})
				}
			}
			c05Barrier(sc, c, "triple")
		}
	}
}

var reRaceFrame = regexp.MustCompile(`github\.com/hashicorp/hcl-lang/[^\s(]+`)

// c05RaceAdjunct runs the same scenario bodies free-running under the race detector in a
// separate binary (build/vcheck-race). It samples schedules and is reported as an adjunct.
func c05RaceAdjunct(c *report.Collector, tier string) {
	bin := filepath.Join(report.Root, "build", "vcheck-race")
	if _, err := os.Stat(bin); err != nil {
		c.Note("race adjunct skipped: build/vcheck-race not built")
		return
	}
	logp := filepath.Join(report.Root, "build", "race.log")
	old, _ := filepath.Glob(logp + "*")
	for _, f := range old {
		_ = os.Remove(f)
	}
	cmd := exec.Command(bin, "C05", "--tier", tier)
	cmd.Env = append(os.Environ(), "VERIF_RACE_BODY=1", "GORACE=halt_on_error=0 log_path="+logp)
	out, err := cmd.CombinedOutput()
	runs := int64(0)
	fmt.Sscanf(lastLineWith(string(out), "race-adjunct-runs="), "race-adjunct-runs=%d", &runs)
	c.Count("adjunct_race_runs", runs)
	logs, _ := filepath.Glob(logp + "*")
	for _, f := range logs {
		b, _ := os.ReadFile(f)
		for _, rep := range strings.Split(string(b), "==================") {
			if !strings.Contains(rep, "DATA RACE") {
				continue
			}
			frames := reRaceFrame.FindAllString(rep, 2)
			if len(frames) == 0 {
				continue // race entirely outside hcl-lang (harness): not this property's business
			}
			site := strings.TrimPrefix(frames[0], "github.com/hashicorp/hcl-lang/")
			c.Add(&report.Violation{Clause: "data-race", Site: site, Check: "race", Detail: "race detector report (free-running adjunct):\n" + trunc(rep, 1800)})
		}
	}
	if err != nil && len(logs) == 0 && runs == 0 {
		c.Note("race adjunct failed to run: " + err.Error() + " " + trunc(string(out), 300))
	}
}

func lastLineWith(s, prefix string) string {
	res := ""
	for _, ln := range strings.Split(s, "\n") {
		if strings.HasPrefix(ln, prefix) {
			res = ln
		}
	}
	return res
}

// c05RaceBody is what build/vcheck-race executes: all scenario pairs, free-running goroutines.
func c05RaceBody(tier string) int {
	rounds := 20
	if tier == "thorough" {
		rounds = 100
	}
	runs := 0
	for _, cs := range c05Worlds(tier) {
		cs := cs
		w := world.Build(cs.Spec())
		qs := c05Queries(&cs, tier)
		for r := 0; r < rounds; r++ {
			var wg sync.WaitGroup
			for g := 0; g < 16; g++ {
				wg.Add(1)
				go func(g int) {
					defer wg.Done()
					for i := range qs {
						run.Call(w, qs[(i+g*3+r)%len(qs)])
					}
				}(g)
			}
			wg.Wait()
			runs += 16 * len(qs)
		}
	}
	fmt.Printf("race-adjunct-runs=%d\n", runs)
	return 0
}

// C05: concurrent queries on a shared path context.
func C05(tier string) int {
	if os.Getenv("VERIF_RACE_BODY") != "" {
		return c05RaceBody(tier)
	}
	c := report.NewCollector("C05")
	cases := c05Worlds(tier)
	si, sn := explore.Shard()
	if !instr.Available {
		c.Inexhaustive("instrumented build unavailable: scheduler exploration skipped; race adjunct only")
		c05RaceAdjunct(c, tier)
		return c.Finish(report.FinishOpts{Tier: tier, Level: "model_checking", EvalCounter: "adjunct_race_runs", Rule: "race adjunct only (instrumentation failed)", BiteCounters: []string{"adjunct_race_runs"},
			Extra: map[string]any{"states": 1, "transitions": 1, "traces_validated_against_impl": 0}})
	}
	if sn == 0 {
		if err := explore.RunSharded("C05", tier, 16, c); err != nil {
			fmt.Println("HARNESS ERROR:", err)
			return 2
		}
		c05RaceAdjunct(c, tier)
		if n := c.Counter("pairs_capped"); n > 0 {
			c.Inexhaustive(fmt.Sprintf("%d pairs had more than 600 schedules and were explored with a stepped switch point (quick tier cap); the thorough tier has no cap", n))
		}
	} else {
		l := report.NewLocal()
		deadline := explore.Deadline(tier)
		capExec := 600
		if tier == "thorough" {
			capExec = 0
		}
		work := 0
	outer:
		for wi := range cases {
			var sc *c05Scenario
			nq := len(c05Queries(&cases[wi], tier))
			for a := 0; a < nq; a++ {
				for b := a; b < nq; b++ {
					work++
					if work%sn != si {
						continue
					}
					if timeUp(deadline) {
						c.Inexhaustive(fmt.Sprintf("internal deadline: shard %d stopped in world %d", si, wi))
						break outer
					}
					if sc == nil {
						sc = c05Setup(&cases[wi], tier, c, l)
						if len(sc.n) != len(sc.qs) {
							continue outer
						}
					}
					c05Pair(sc, a, b, c, l, capExec)
					if tier == "thorough" {
						c05Bound2(sc, a, b, c, l)
					}
				}
			}
			if tier == "thorough" && sc != nil && wi%sn == si {
				// triples drawn from {completion, semantic tokens, collect targets, validate}
				pick := func(k run.Kind) int {
					for i, q := range sc.qs {
						if q.Kind == k {
							return i
						}
					}
					return 0
				}
				ks := []int{pick(run.Completion), pick(run.SemTok), pick(run.CollectTargets), pick(run.Validate)}
				for x := 0; x < 4; x++ {
					for y := 0; y < 4; y++ {
						for z := 0; z < 4; z++ {
							if x != y && y != z && x != z {
								c05Triple(sc, [3]int{ks[x], ks[y], ks[z]}, c, l)
							}
						}
					}
				}
			}
			if sc != nil && si == 0 && wi == 0 {
				c.Sample(map[string]any{"world": sc.cs.Entry.ID, "file": sc.cs.Text, "threads": []string{sc.qs[0].String(), sc.qs[1].String()}, "yields": []int{sc.n[0], sc.n[1]},
					"schedules": "T0 runs k yields, T1 to completion, T0 rest - for every k; and symmetrically: every product state (i,j) and every edge is executed"})
			}
		}
		instr.BarrierEnable(false)
		l.Count("barrier_probes", instr.BarrierProbes())
		c.Merge(l)
		return explore.FinishShard(c)
	}
	ms, ys, ps, up := instr.Stats()
	return c.Finish(report.FinishOpts{
		Tier: tier, Level: "model_checking", EvalCounter: "calls",
		Rule: "E5: 2 (thorough: also 3) threads, each one query on its own PathDecoder over the SAME path reader/context/schema, under a cooperative scheduler whose switch points are the instrumented library's yields (every function entry and every write statement). (i) solo runs of every query evaluate the shared-state hash H at EVERY yield and run under the write barrier; (ii) for every unordered pair of entry points (incl. a query with itself) on every collision world the complete product grid (i,j), i<=N, j<=M is covered by the schedule families 'A runs k yields, B to completion, A rest' for every k and symmetrically; invariants: no write into shared memory, H unchanged, each thread's result == its sequential result, no thread blocks. Adjunct (sampling, not the deciding step): the same bodies free-running under the race detector.",
		Assumptions: []string{
			"a thread's local state is a function of its program counter as long as shared state is never written (invariant (i)); this is what makes state matching by (pc1,pc2,H) sound",
			"memory-model level races below yield granularity are outside exhaustive exploration; only the race-detector adjunct looks at them",
			"quick tier caps a pair at 600 schedules (k stepped) when N+M is larger: reported in pairs_capped",
		},
		BiteCounters: []string{"executions", "solo_state_hashes", "barrier_probes", "pairs"},
		Extra: map[string]any{
			"states": c.Counter("grid_states"), "transitions": c.Counter("grid_edges"), "traces_validated_against_impl": c.Counter("executions"),
			"instrumentation": map[string]int{"map_sites": ms, "yield_points": ys, "write_probes": ps, "unprobed_write_sites": up},
		},
	})
}
