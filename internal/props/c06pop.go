package props

import (
	"fmt"
	"strings"

	"github.com/hashicorp/hcl-lang/lang"
	"github.com/hashicorp/hcl-lang/schema"
	"github.com/zclconf/go-cty/cty"
	"github.com/zclconf/go-cty/cty/function"

	"verif/internal/report"
	"verif/internal/run"
	"verif/internal/world"
)

// population worlds: the matching population of each candidate producer is exactly n.
type popScenario struct {
	name   string
	schema func(n int) *schema.BodySchema
	text   func(n int) string
	cursor func(text string) int
	funcs  func(n int) map[string]schema.FunctionSignature
	hooks  int // items returned by each hook (-1: none registered)
	// total matching candidates for population n (by construction)
	total func(n int) int
	// hooked: a completion hook is configured for the attribute under the cursor
	hooked bool
	// hookItems: items each hook returns for population n (nil: n)
	hookItems func(n int) int
}

func popScenarios() []popScenario {
	str := func() schema.Constraint { return schema.LiteralType{Type: cty.String} }
	endOf := func(marker string) func(string) int {
		return func(t string) int { return strings.Index(t, marker) + len(marker) }
	}
	nAttrs := func(n int) map[string]*schema.AttributeSchema {
		m := map[string]*schema.AttributeSchema{}
		for i := 0; i < n; i++ {
			m[fmt.Sprintf("a%03d", i)] = &schema.AttributeSchema{Constraint: str(), IsOptional: true}
		}
		return m
	}
	nBlocks := func(n int) map[string]*schema.BlockSchema {
		m := map[string]*schema.BlockSchema{}
		for i := 0; i < n; i++ {
			m[fmt.Sprintf("b%03d", i)] = &schema.BlockSchema{Body: &schema.BodySchema{}}
		}
		return m
	}
	declSchema := func(cons schema.Constraint, hooks lang.CompletionHooks) *schema.BodySchema {
		return &schema.BodySchema{
			Blocks: map[string]*schema.BlockSchema{
				// the attribute lives in a block: at the root every target of the same file counts as
				// "the enclosing block's own declaration" and is never offered
				"use": {Body: &schema.BodySchema{Attributes: map[string]*schema.AttributeSchema{"attr": {Constraint: cons, IsOptional: true, CompletionHooks: hooks}}}},
				"decl": {Labels: []*schema.LabelSchema{{Name: "n"}}, Body: &schema.BodySchema{},
					Address: &schema.BlockAddrSchema{Steps: schema.Address{schema.StaticStep{Name: "decl"}, schema.LabelStep{Index: 0}}, AsReference: true, ScopeId: "sd",
						AsTypeOf: &schema.BlockAsTypeOf{}}}},
		}
	}
	decls := func(n int) string {
		var sb strings.Builder
		for i := 0; i < n; i++ {
			fmt.Fprintf(&sb, "decl \"x%03d\" {\n}\n", i)
		}
		return sb.String()
	}
	nFuncs := func(n int) map[string]schema.FunctionSignature {
		m := map[string]schema.FunctionSignature{}
		for i := 0; i < n; i++ {
			m[fmt.Sprintf("fn%03d", i)] = schema.FunctionSignature{ReturnType: cty.String, Params: []function.Parameter{{Name: "a", Type: cty.String}}}
		}
		return m
	}
	return []popScenario{
		{name: "schema-attributes", schema: func(n int) *schema.BodySchema { return &schema.BodySchema{Attributes: nAttrs(n)} },
			text: func(int) string { return "\n" }, cursor: func(string) int { return 0 }, hooks: -1, total: func(n int) int { return n }},
		{name: "schema-attributes-prefix", schema: func(n int) *schema.BodySchema { return &schema.BodySchema{Attributes: nAttrs(n)} },
			text: func(int) string { return "a\n" }, cursor: func(string) int { return 1 }, hooks: -1, total: func(n int) int { return n }},
		{name: "block-types", schema: func(n int) *schema.BodySchema { return &schema.BodySchema{Blocks: nBlocks(n)} },
			text: func(int) string { return "\n" }, cursor: func(string) int { return 0 }, hooks: -1, total: func(n int) int { return n }},
		{name: "attributes+blocks", schema: func(n int) *schema.BodySchema {
			return &schema.BodySchema{Attributes: nAttrs(n / 2), Blocks: nBlocks(n - n/2)}
		}, text: func(int) string { return "\n" }, cursor: func(string) int { return 0 }, hooks: -1, total: func(n int) int { return n }},
		{name: "attributes+count+for_each", schema: func(n int) *schema.BodySchema {
			return &schema.BodySchema{Blocks: map[string]*schema.BlockSchema{"blk": {Body: &schema.BodySchema{Attributes: nAttrs(n - 2), Extensions: &schema.BodyExtensions{Count: true, ForEach: true}}}}}
		}, text: func(int) string { return "blk {\n  \n}\n" }, cursor: endOf("blk {\n  "), hooks: -1, total: func(n int) int { return n }},
		{name: "dependent-label-values", schema: func(n int) *schema.BodySchema {
			db := map[schema.SchemaKey]*schema.BodySchema{}
			for i := 0; i < n; i++ {
				db[depKey([]schema.LabelDependent{lbl(0, fmt.Sprintf("t%03d", i))}, nil)] = &schema.BodySchema{}
			}
			return &schema.BodySchema{Blocks: map[string]*schema.BlockSchema{"res": {Labels: []*schema.LabelSchema{{Name: "type", IsDepKey: true, Completable: true}}, Body: &schema.BodySchema{}, DependentBody: db}}}
		}, text: func(int) string { return "res \"\" {\n}\n" }, cursor: endOf("res \""), hooks: -1, total: func(n int) int { return n }},
		{name: "reference-targets", schema: func(n int) *schema.BodySchema { return declSchema(schema.Reference{OfScopeId: "sd"}, nil) },
			text: func(n int) string { return decls(n) + "use {\n  attr = \n}\n" }, cursor: endOf("attr = "), hooks: -1, total: func(n int) int { return n }},
		{name: "reference-targets-prefix", schema: func(n int) *schema.BodySchema { return declSchema(schema.Reference{OfScopeId: "sd"}, nil) },
			text: func(n int) string { return decls(n) + "use {\n  attr = decl.x\n}\n" }, cursor: endOf("attr = decl.x"), hooks: -1, total: func(n int) int { return n }},
		{name: "functions", schema: func(n int) *schema.BodySchema { return declSchema(schema.AnyExpression{OfType: cty.String}, nil) },
			text: func(n int) string { return "use {\n  attr = fn\n}\n" }, cursor: endOf("attr = fn"), funcs: nFuncs, hooks: -1, total: func(n int) int { return n }},
		{name: "any-refs+functions", schema: func(n int) *schema.BodySchema {
			return declSchema(schema.AnyExpression{OfType: cty.DynamicPseudoType}, nil)
		},
			text: func(n int) string { return decls(n/2) + "use {\n  attr = \n}\n" }, cursor: endOf("attr = "), funcs: func(n int) map[string]schema.FunctionSignature { return nFuncs(n - n/2) }, hooks: -1,
			total: func(n int) int { return n }},
		{name: "oneof-refs+keyword", schema: func(n int) *schema.BodySchema {
			return declSchema(schema.OneOf{schema.Reference{OfScopeId: "sd"}, schema.Keyword{Keyword: "kw"}}, nil)
		}, text: func(n int) string { return decls(n-1) + "use {\n  attr = \n}\n" }, cursor: endOf("attr = "), hooks: -1, total: func(n int) int { return n }},
		{name: "object-attributes", schema: func(n int) *schema.BodySchema {
			oa := schema.ObjectAttributes{}
			for k, v := range nAttrs(n) {
				oa[k] = v
			}
			return &schema.BodySchema{Attributes: map[string]*schema.AttributeSchema{"attr": {Constraint: schema.Object{Attributes: oa}, IsOptional: true}}}
		}, text: func(int) string { return "attr = {\n  \n}\n" }, cursor: endOf("attr = {\n  "), hooks: -1, total: func(n int) int { return n }},
		{name: "hook-only", schema: func(n int) *schema.BodySchema {
			return declSchema(str(), lang.CompletionHooks{{Name: world.HookName}})
		}, text: func(int) string { return "use {\n  attr = \n}\n" }, cursor: endOf("attr = "), hooks: -2, hooked: true, total: func(n int) int { return n }},
		{name: "two-hooks+refs", schema: func(n int) *schema.BodySchema {
			return declSchema(schema.AnyExpression{OfType: cty.String}, lang.CompletionHooks{{Name: world.HookName}, {Name: world.HookName2}})
		}, text: func(n int) string { return decls(10) + "use {\n  attr = \n}\n" }, cursor: endOf("attr = "), hooks: -2, hooked: true, total: func(n int) int { return 2*n + 10 }},
		// one hook below the limit and an expression that offers candidates of its own: together over the limit
		{name: "hook-half+refs-half", schema: func(n int) *schema.BodySchema {
			return declSchema(schema.AnyExpression{OfType: cty.String}, lang.CompletionHooks{{Name: world.HookName}})
		}, text: func(n int) string { return decls(n-n/2) + "use {\n  attr = \n}\n" }, cursor: endOf("attr = "), hooks: -2, hooked: true,
			hookItems: func(n int) int { return n / 2 }, total: func(n int) int { return n }},
		{name: "hook-half+functions-half", schema: func(n int) *schema.BodySchema {
			return declSchema(schema.AnyExpression{OfType: cty.String}, lang.CompletionHooks{{Name: world.HookName}})
		}, text: func(n int) string { return "use {\n  attr = \n}\n" }, cursor: endOf("attr = "), funcs: func(n int) map[string]schema.FunctionSignature { return nFuncs(n - n/2) }, hooks: -2, hooked: true,
			hookItems: func(n int) int { return n / 2 }, total: func(n int) int { return n }},
	}
}

func c06Population(c *report.Collector, tier string) {
	l := report.NewLocal()
	defer c.Merge(l)
	pops := []int{0, 1, 99, 100, 101, 250}
	for _, sc := range popScenarios() {
		for _, n := range pops {
			if n < 2 && (strings.Contains(sc.name, "+") || sc.name == "oneof-refs+keyword") {
				continue
			}
			text := sc.text(n)
			sp := &world.Spec{SchemaID: "P:" + sc.name, HookItems: sc.hooks}
			if sc.hooks == -2 {
				sp.HookItems = n
				if sc.hookItems != nil {
					sp.HookItems = sc.hookItems(n)
				}
			}
			n := n
			sc := sc
			ps := world.PathSpec{Path: "/p0", Schema: func() *schema.BodySchema { return sc.schema(n) }, Files: []world.FileSpec{{Name: "main.tf", Text: text}}}
			if sc.funcs != nil {
				ps.Funcs = func() map[string]schema.FunctionSignature { return sc.funcs(n) }
			}
			sp.Paths = []world.PathSpec{ps}
			w := world.Build(sp)
			for _, kind := range []run.Kind{run.Completion, run.CompletionPrefill} {
				q := run.Query{Kind: kind, File: "main.tf", Pos: run.PosAt([]byte(text), sc.cursor(text))}
				r := run.Call(w, q)
				l.Count("calls", 1)
				l.Count("population_worlds", 1)
				cands, ok := r.Val.(lang.Candidates)
				if !ok || r.Panic != nil {
					continue
				}
				total := sc.total(n)
				add := func(clause, detail string) {
					c.Add(&report.Violation{Clause: clause, Site: kindClass(kind) + ":" + sc.name, Check: "population", SchemaID: sp.SchemaID,
						Detail: fmt.Sprintf("producer %s, matching population %d (hook configured: %v): %s", sc.name, total, sc.hooked, detail)})
				}
				if len(cands.List) > 100 {
					add("list:over-limit", fmt.Sprintf("%d candidates returned, the limit is 100", len(cands.List)))
				}
				if cands.IsComplete && sc.hooked {
					add("complete:with-hook", fmt.Sprintf("marked complete although a hook may add more (%d returned)", len(cands.List)))
				}
				if cands.IsComplete && len(cands.List) != total {
					add("complete:candidates-left-out", fmt.Sprintf("marked complete with %d of %d matching candidates", len(cands.List), total))
				}
				if len(cands.List) > total {
					add("list:more-than-population", fmt.Sprintf("%d candidates for a population of %d", len(cands.List), total))
				}
				seen := map[string]bool{}
				for _, cd := range cands.List {
					if seen[cd.Label] {
						add("list:duplicate", "duplicate candidate "+cd.Label)
						break
					}
					seen[cd.Label] = true
				}
				if total > 0 {
					l.Count("nontrivial", 1)
					l.Outcome(fmt.Sprint(sc.name, n, len(cands.List), cands.IsComplete))
				}
			}
		}
	}
	c.Sample(map[string]any{"producer": "reference-targets", "population": 101, "oracle": "len <= 100; IsComplete implies no hook configured and returned == population"})
}
