package props

import (
	"fmt"
	"sort"
	"strings"

	"github.com/hashicorp/hcl-lang/lang"
	"github.com/hashicorp/hcl-lang/schema"
	"github.com/hashicorp/hcl/v2"
	"github.com/hashicorp/hcl/v2/hclsyntax"

	"verif/internal/explore"
	"verif/internal/gen"
	"verif/internal/model"
	"verif/internal/report"
	"verif/internal/run"
	"verif/internal/world"
)

type c07Probe struct {
	text   string
	pos    int // cursor byte offset
	prefix string
	what   string // body-blank | body-prefix | attr-name | block-type | label
	label  int    // label index for label probes
}

// bodiesOf lists every body of the file whose effective schema is known, with the byte offset at
// which a new line can be inserted (start of the line holding the closing brace, or EOF).
type c07Body struct {
	ctx      *model.BodyCtx
	insertAt int
	indent   string
}

func c07Bodies(root *schema.BodySchema, body *hclsyntax.Body, text string) []c07Body {
	var out []c07Body
	var walk func(ctx *model.BodyCtx, depth int)
	walk = func(ctx *model.BodyCtx, depth int) {
		if ctx.Eff == nil || ctx.Unknown {
			return
		}
		if ctx.Block == nil {
			if len(text) == 0 || text[len(text)-1] == '\n' {
				out = append(out, c07Body{ctx, len(text), ""})
			}
		} else {
			cb := ctx.Block.CloseBraceRange.Start.Byte
			ls := strings.LastIndex(text[:cb], "\n") + 1
			// closing brace on its own line, after the opening brace's line
			if strings.TrimSpace(text[ls:cb]) == "" && ls > ctx.Block.OpenBraceRange.End.Byte {
				out = append(out, c07Body{ctx, ls, strings.Repeat("  ", depth)})
			}
		}
		for _, b := range ctx.Body.Blocks {
			if b.CloseBraceRange.End.Byte <= b.CloseBraceRange.Start.Byte {
				continue
			}
			inner := model.BodyAt(root, body, b.OpenBraceRange.End)
			if inner.Block == b {
				walk(inner, depth+1)
			}
		}
	}
	walk(&model.BodyCtx{Body: body, Eff: model.RootEff(root)}, 0)
	return out
}

func prefixesOf(names []string) []string {
	set := map[string]bool{"": true, "zz": true}
	for _, n := range names {
		for k := 1; k <= len(n); k++ {
			set[n[:k]] = true
		}
		// the first letters in the other case: a different prefix (names are matched as they are written)
		for k := 1; k <= len(n) && k <= 2; k++ {
			if u := strings.ToUpper(n[:k]); u != n[:k] {
				set[u] = true
			} else if lw := strings.ToLower(n[:k]); lw != n[:k] {
				set[lw] = true
			}
		}
	}
	var out []string
	for p := range set {
		out = append(out, p)
	}
	sort.Strings(out)
	return out
}

func c07Probes(e *gen.Entry, text string) []c07Probe {
	f := world.ParseFile("main.tf", text)
	body, ok := f.Body.(*hclsyntax.Body)
	if !ok {
		return nil
	}
	root := e.Mk()
	var out []c07Probe
	_, pdiags := hclsyntax.ParseConfig([]byte(text), "main.tf", hcl.InitialPos)
	clean := !pdiags.HasErrors()
	for _, b := range c07Bodies(root, body, text) {
		if !clean {
			break // exactness only on files the generator fully understands
		}
		var names []string
		for n := range b.ctx.Eff.Attributes {
			names = append(names, n)
		}
		for n := range b.ctx.Eff.Blocks {
			names = append(names, n)
		}
		names = append(names, "count", "for_each", "dynamic")
		for _, p := range prefixesOf(names) {
			line := b.indent + p + "\n"
			t := text[:b.insertAt] + line + text[b.insertAt:]
			what := "body-prefix"
			if p == "" {
				what = "body-blank"
			}
			out = append(out, c07Probe{text: t, pos: b.insertAt + len(b.indent) + len(p), prefix: p, what: what})
		}
	}
	// cursor inside existing attribute names, block types and completable labels
	if !clean {
		return out
	}
	var walk func(hb *hclsyntax.Body)
	walk = func(hb *hclsyntax.Body) {
		for _, a := range hb.Attributes {
			for k := 0; k <= len(a.Name); k++ {
				out = append(out, c07Probe{text: text, pos: a.NameRange.Start.Byte + k, prefix: a.Name[:k], what: "attr-name"})
			}
		}
		for _, b := range hb.Blocks {
			for k := 0; k <= len(b.Type); k++ {
				out = append(out, c07Probe{text: text, pos: b.TypeRange.Start.Byte + k, prefix: b.Type[:k], what: "block-type"})
			}
			for i, lr := range b.LabelRanges {
				raw := text[lr.Start.Byte:lr.End.Byte]
				if len(raw) >= 2 && raw[0] == '"' && raw[len(raw)-1] == '"' && !strings.ContainsAny(raw[1:len(raw)-1], "\\\"$%") {
					for k := 0; k <= len(raw)-2; k++ {
						out = append(out, c07Probe{text: text, pos: lr.Start.Byte + 1 + k, prefix: raw[1 : 1+k], what: "label", label: i})
					}
				}
			}
			walk(b.Body)
		}
	}
	walk(body)
	return out
}

func candLabels(cs lang.Candidates) []model.Cand {
	var out []model.Cand
	for _, c := range cs.List {
		k := "other:" + c.Kind.String()
		switch c.Kind {
		case lang.AttributeCandidateKind:
			k = "attribute"
		case lang.BlockCandidateKind:
			k = "block"
		case lang.LabelCandidateKind:
			k = "label"
		}
		out = append(out, model.Cand{Label: c.Label, Kind: k})
	}
	return out
}

// c07Accept applies a candidate and checks that validation reports no new unexpected / surplus item.
func c07Accept(e *gen.Entry, p c07Probe, cand lang.Candidate, before map[string]int) string {
	r := cand.TextEdit.Range
	if r.Start.Byte < 0 || r.End.Byte > len(p.text) || r.Start.Byte > r.End.Byte {
		return ""
	}
	ins := cand.Label
	switch cand.Kind {
	case lang.AttributeCandidateKind:
		ins = cand.Label + " = null"
	case lang.BlockCandidateKind:
		// labels as the schema wants them are part of the snippet; use the plain header
		ins = cand.TextEdit.NewText
		if !strings.Contains(ins, "{") {
			ins = blockHeaderFromSnippet(cand.TextEdit.Snippet) + " {\n}"
		}
	}
	nt := p.text[:r.Start.Byte] + ins + p.text[r.End.Byte:]
	cs := explore.Case{Entry: e, File: "main.tf", Text: nt, PosTo: -1}
	w := world.Build(cs.Spec())
	res := run.Call(w, run.Query{Kind: run.ValidateFile, File: "main.tf"})
	if res.Panic != nil || res.Err != nil {
		return ""
	}
	// only diagnostics about the accepted item itself: subject overlapping the inserted text
	// (per-body "too many" diagnostics have the body as subject, which contains it)
	var onItem hcl.Diagnostics
	for _, d := range res.Val.(hcl.Diagnostics) {
		if d.Subject != nil && d.Subject.Start.Byte <= r.Start.Byte+len(ins) && d.Subject.End.Byte >= r.Start.Byte {
			onItem = append(onItem, d)
		}
	}
	after := diagKinds(onItem)
	for _, k := range []string{"unexpected-attr", "unexpected-block", "too-many", "surplus-label"} {
		if after[k] > before[k] {
			return fmt.Sprintf("accepting %q (%s) makes validation report a new %s; text after edit:\n%s", cand.Label, cand.Kind, k, nt)
		}
	}
	return ""
}

// blockHeaderFromSnippet turns `type "${1:name}" {\n  ${2}\n}` into `type "name"`.
func blockHeaderFromSnippet(s string) string {
	if i := strings.Index(s, "{\n"); i >= 0 {
		s = s[:i]
	}
	s = strings.TrimSpace(s)
	var sb strings.Builder
	for i := 0; i < len(s); i++ {
		if s[i] == '$' && i+1 < len(s) && s[i+1] == '{' {
			j := strings.Index(s[i:], "}")
			if j < 0 {
				break
			}
			inner := s[i+2 : i+j]
			if k := strings.Index(inner, ":"); k >= 0 {
				sb.WriteString(inner[k+1:])
			} else {
				sb.WriteString("x")
			}
			i += j
			continue
		}
		sb.WriteByte(s[i])
	}
	return sb.String()
}

func diagKinds(ds hcl.Diagnostics) map[string]int {
	m := map[string]int{}
	for _, d := range ds {
		k, _ := model.ClassifyDiag(d)
		m[k]++
	}
	return m
}

func c07Entry(e *gen.Entry, seeds []string, c *report.Collector, l *report.Local, accept bool) {
	for _, seed := range seeds {
		probes := c07Probes(e, seed)
		worlds := map[string]*world.World{}
		for _, p := range probes {
			w := worlds[p.text]
			if w == nil {
				cs := explore.Case{Entry: e, File: "main.tf", Text: p.text, PosTo: -1}
				w = world.Build(cs.Spec())
				worlds[p.text] = w
			}
			f := w.Ctx(0).Files["main.tf"]
			body, ok := f.Body.(*hclsyntax.Body)
			if !ok {
				continue
			}
			src := []byte(p.text)
			pos := run.PosAt(src, p.pos)
			root := e.Mk()
			var exp []model.Cand
			var labelBS *schema.BlockSchema
			bc := model.BodyAt(root, body, pos)
			switch p.what {
			case "label":
				// find the block whose label range holds the cursor
				var blk *hclsyntax.Block
				var holder *model.BodyCtx
				var find func(ctx *model.BodyCtx)
				find = func(ctx *model.BodyCtx) {
					for _, b := range ctx.Body.Blocks {
						for i, lr := range b.LabelRanges {
							if i == p.label && lr.Start.Byte < p.pos && p.pos < lr.End.Byte {
								blk, holder = b, ctx
							}
						}
					}
				}
				for cur := bc; cur != nil && blk == nil; cur = cur.Parent {
					find(cur)
				}
				if blk == nil || holder.Eff == nil || holder.Unknown {
					continue
				}
				bs, ok := holder.Eff.BlockSchemaFor(blk.Type)
				if !ok || p.label >= len(bs.Labels) || !bs.Labels[p.label].Completable {
					exp = nil
				} else {
					exp = model.LabelValues(bs, p.label, p.prefix)
					labelBS = bs
				}
			case "block-type", "attr-name":
				// the item under the cursor belongs to the body that holds it
				holder := bc
				for holder != nil {
					found := false
					for _, b := range holder.Body.Blocks {
						if b.TypeRange.Start.Byte <= p.pos && p.pos <= b.TypeRange.End.Byte {
							found = true
						}
					}
					for _, a := range holder.Body.Attributes {
						if a.NameRange.Start.Byte <= p.pos && p.pos <= a.NameRange.End.Byte {
							found = true
						}
					}
					if found {
						break
					}
					holder = holder.Parent
				}
				if holder == nil || holder.Eff == nil || holder.Unknown {
					continue
				}
				bc = holder
				exp = model.Declarable(bc.Eff, bc.Body, p.prefix)
			default:
				if bc.Eff == nil || bc.Unknown {
					continue
				}
				exp = model.Declarable(bc.Eff, bc.Body, p.prefix)
			}
			for _, kind := range []run.Kind{run.Completion, run.CompletionPrefill} {
				q := run.Query{Kind: kind, File: "main.tf", Pos: pos}
				r := run.Call(w, q)
				l.Count("calls", 1)
				if r.Panic != nil || r.Err != nil {
					if p.what == "label" || r.Panic != nil {
						continue
					}
				}
				cands, _ := r.Val.(lang.Candidates)
				got := candLabels(cands)
				l.Count("comparisons", 1)
				// a label candidate is described by the body its value selects on its own, where there is one
				if p.what == "label" && labelBS != nil {
					for _, cd := range cands.List {
						own, ok := labelBS.DependentBody[schema.NewSchemaKey(schema.DependencyKeys{Labels: []schema.LabelDependent{{Index: p.label, Value: cd.Label}}})]
						if !ok {
							continue
						}
						l.Count("label_descriptions", 1)
						if cd.Detail != own.Detail || cd.Description.Value != own.Description.Value {
							c.Add(&report.Violation{Clause: "label:described-by-other-body", Site: "label", Check: "c07", SchemaID: e.ID, Files: []report.FileSpec{{Path: "/p0", Name: "main.tf", Text: p.text}}, Query: report.J(q),
								Detail: fmt.Sprintf("%s: label candidate %q carries detail %q / description %q, the body selected by that label alone has %q / %q\nfile:\n%s", q, cd.Label, cd.Detail, cd.Description.Value, own.Detail, own.Description.Value, p.text)})
						}
					}
				}
				if fmt.Sprint(got) != fmt.Sprint(exp) {
					clause := "candidates:mismatch"
					gs, es := map[model.Cand]int{}, map[model.Cand]bool{}
					for _, g := range got {
						gs[g]++
					}
					for _, x := range exp {
						es[x] = true
					}
					var extra, missing []string
					for g, n := range gs {
						if n > 1 {
							clause = "candidates:duplicate"
						}
						if !es[g] {
							extra = append(extra, g.Label)
						}
					}
					for x := range es {
						if gs[x] == 0 {
							missing = append(missing, x.Label)
						}
					}
					sort.Strings(extra)
					sort.Strings(missing)
					switch {
					case clause == "candidates:duplicate":
					case len(extra) > 0 && len(missing) == 0:
						clause = "candidates:extra"
					case len(missing) > 0 && len(extra) == 0:
						clause = "candidates:missing"
					case len(extra) == 0 && len(missing) == 0:
						clause = "candidates:order"
					}
					site := p.what
					if len(extra) > 0 {
						site += ":+" + strings.Join(extra, ",")
					}
					if len(missing) > 0 {
						site += ":-" + strings.Join(missing, ",")
					}
					c.Add(&report.Violation{Clause: clause, Site: site, Check: "c07", SchemaID: e.ID, Files: []report.FileSpec{{Path: "/p0", Name: "main.tf", Text: p.text}}, Query: report.J(q),
						Detail: fmt.Sprintf("%s (%s, typed prefix %q): candidates %v, the effective schema still allows %v\nfile:\n%s", q, p.what, p.prefix, got, exp, p.text)})
				} else if len(exp) > 0 {
					l.Count("nontrivial", 1)
					l.Outcome(fmt.Sprint(e.ID, p.what, p.prefix, exp))
				}
				if accept && kind == run.Completion && len(cands.List) > 0 {
					before := diagKinds(func() hcl.Diagnostics {
						rr := run.Call(w, run.Query{Kind: run.ValidateFile, File: "main.tf"})
						if d, ok := rr.Val.(hcl.Diagnostics); ok {
							return d
						}
						return nil
					}())
					for _, cd := range cands.List {
						l.Count("acceptance_checks", 1)
						if msg := c07Accept(e, p, cd, before); msg != "" {
							site := p.what + ":" + cd.Kind.String()
							// input class: the edit replaces the very attribute whose value selected the dependent body
							if bc != nil && bc.Eff != nil {
								for _, ka := range bc.Eff.KeyAttrs {
									if a, ok := bc.Body.Attributes[ka]; ok && cd.TextEdit.Range.Start.Byte <= a.SrcRange.Start.Byte && cd.TextEdit.Range.End.Byte >= a.SrcRange.End.Byte {
										site += ":edit-replaces-dependency-key-attribute"
									}
								}
							}
							c.Add(&report.Violation{Clause: "accept:validation-rejects", Site: site, Check: "c07", SchemaID: e.ID,
								Files: []report.FileSpec{{Path: "/p0", Name: "main.tf", Text: p.text}}, Query: report.J(q), Detail: msg})
						}
					}
				}
			}
		}
		l.Count("seeds", 1)
	}
}

// C07: body and label completion offers exactly what the effective schema still allows.
func C07(tier string) int {
	c := report.NewCollector("C07")
	cat := gen.Catalogue(tier)
	var ents []*gen.Entry
	ncons := 0
	for i := range cat {
		if cat[i].Family == "struct" {
			ents = append(ents, &cat[i])
		} else if cat[i].Family == "cons" {
			// one-constraint bodies: body completion around values of every constraint kind
			ncons++
			if tier == "thorough" || ncons%9 == 0 {
				ents = append(ents, &cat[i])
			}
		}
	}
	explore.ParallelEach(len(ents), c, explore.Deadline(tier), func(i int, l *report.Local) {
		seeds := ents[i].Seeds
		if ents[i].Family == "cons" {
			for _, v := range []string{`"foo"`, `decl.foo`, `{ foo = "x" }`} {
				cs := gen.ConsSeeds(v)
				seeds = append(seeds, cs[3], cs[4])
			}
		}
		c07Entry(ents[i], seeds, c, l, ents[i].Family == "struct")
	})
	c07Population(c)
	if len(ents) > 0 {
		ps := c07Probes(ents[0], ents[0].Seeds[0])
		if len(ps) > 3 {
			c.Sample(map[string]any{"schema": ents[0].ID, "file": ps[3].text, "cursor_byte": ps[3].pos, "kind": ps[3].what, "typed_prefix": ps[3].prefix})
		}
	}
	return c.Finish(report.FinishOpts{
		Tier: tier, Level: "exploration", EvalCounter: "calls",
		Rule:         "E2: every structure-template schema x seed configs x probes: (a) a new line holding every prefix of every attribute/block name (and count/for_each/dynamic, empty, non-matching) inserted at the end of EVERY body whose effective schema is known, cursor after the prefix; (b) cursor at every offset inside every written attribute name and block type; (c) cursor at every offset inside every quoted label; prefill off and on. Oracle: reference model of the effective schema (static + dependent by keys + extensions, dynamic inherited into nested bodies) -> declarable set with prefix, compared as ordered lists (labels and kinds); acceptance: each candidate applied, re-parsed, re-validated: no new unexpected/too-many/surplus diagnostic. non-trivial = non-empty expected set.",
		Assumptions:  []string{"AnyAttribute bodies offer a placeholder attribute 'name' on an empty prefix (statement silent: the library's choice is encoded)", "dynamic is expected only where the extension is on and the body has block types"},
		BiteCounters: []string{"comparisons", "acceptance_checks", "nontrivial"},
	})
}

// c07Population: bodies whose declarable population is 0, 1, 99, 100, 101 and 250 (attributes, block types,
// both, with count/for_each): whatever the limit lets through is sorted by name and free of duplicates, and
// below the limit it is the whole population.
func c07Population(c *report.Collector) {
	l := report.NewLocal()
	defer c.Merge(l)
	for _, sc := range popScenarios() {
		switch sc.name {
		case "schema-attributes", "schema-attributes-prefix", "block-types", "attributes+blocks", "attributes+count+for_each":
		default:
			continue
		}
		for _, n := range []int{0, 1, 2, 99, 100, 101, 250} {
			if n < 2 && strings.Contains(sc.name, "+") {
				continue
			}
			n, sc := n, sc
			text := sc.text(n)
			sp := &world.Spec{SchemaID: "P:" + sc.name, HookItems: -1, Paths: []world.PathSpec{{Path: "/p0", Schema: func() *schema.BodySchema { return sc.schema(n) }, Files: []world.FileSpec{{Name: "main.tf", Text: text}}}}}
			w := world.Build(sp)
			for _, kind := range []run.Kind{run.Completion, run.CompletionPrefill} {
				q := run.Query{Kind: kind, File: "main.tf", Pos: run.PosAt([]byte(text), sc.cursor(text))}
				r := run.Call(w, q)
				l.Count("calls", 1)
				l.Count("comparisons", 1)
				cands, ok := r.Val.(lang.Candidates)
				if !ok || r.Panic != nil {
					continue
				}
				add := func(clause, detail string) {
					c.Add(&report.Violation{Clause: clause, Site: "population:" + sc.name, Check: "population", SchemaID: sp.SchemaID, Files: []report.FileSpec{{Path: "/p0", Name: "main.tf", Text: text}}, Query: report.J(q),
						Detail: fmt.Sprintf("body with a declarable population of %d (%s): %s", sc.total(n), sc.name, detail)})
				}
				var labels []string
				for _, cd := range cands.List {
					labels = append(labels, cd.Label)
				}
				for i := 1; i < len(labels); i++ {
					if labels[i] < labels[i-1] {
						add("candidates:not-sorted", fmt.Sprintf("%d candidates, %q listed before %q (first five: %v)", len(labels), labels[i-1], labels[i], labels[:min(5, len(labels))]))
						break
					}
					if labels[i] == labels[i-1] {
						add("candidates:duplicate", "twice: "+labels[i])
						break
					}
				}
				if sc.total(n) <= 100 && len(labels) != sc.total(n) {
					add("candidates:missing", fmt.Sprintf("%d candidates for a population of %d below the limit", len(labels), sc.total(n)))
				}
				if len(labels) > 0 {
					l.Count("nontrivial", 1)
				}
			}
		}
	}
}
