package props

import (
	"fmt"
	"strings"

	"github.com/hashicorp/hcl-lang/decoder"
	"github.com/hashicorp/hcl-lang/lang"
	"github.com/hashicorp/hcl-lang/reference"
	"github.com/hashicorp/hcl-lang/schema"
	"github.com/hashicorp/hcl/v2"
	"github.com/hashicorp/hcl/v2/hclsyntax"
	"github.com/zclconf/go-cty/cty"
	"github.com/zclconf/go-cty/cty/convert"

	"verif/internal/explore"
	"verif/internal/gen"
	"verif/internal/model"
	"verif/internal/report"
	"verif/internal/run"
	"verif/internal/world"
)

func flattenTargets(ts reference.Targets) []reference.Target {
	var out []reference.Target
	var rec func(ts reference.Targets)
	rec = func(ts reference.Targets) {
		for _, t := range ts {
			out = append(out, t)
			rec(t.NestedTargets)
		}
	}
	rec(ts)
	return out
}

func typeFits(t reference.Target, scope lang.ScopeId, typ cty.Type) bool {
	if scope != "" && t.ScopeId != scope {
		return false
	}
	if typ == cty.NilType && t.Type == cty.NilType {
		return true
	}
	if typ == cty.NilType || t.Type == cty.NilType {
		return false
	}
	if t.Type == cty.DynamicPseudoType {
		return true
	}
	_, err := convert.Convert(cty.UnknownVal(t.Type), typ)
	return err == nil
}

func fitsDeep(t reference.Target, scope lang.ScopeId, typ cty.Type) bool {
	if typeFits(t, scope, typ) {
		return true
	}
	for _, n := range t.NestedTargets {
		if fitsDeep(n, scope, typ) {
			return true
		}
	}
	return false
}

// expectations of a constraint for a reference / function candidate at the top level of a value
type refExpect struct {
	scope lang.ScopeId
	typ   cty.Type
}

func (e refExpect) String() string {
	t := "nil"
	if e.typ != cty.NilType {
		t = e.typ.FriendlyName()
	}
	return fmt.Sprintf("{scope %q type %s}", e.scope, t)
}

func refExpectations(c schema.Constraint) []refExpect {
	switch x := c.(type) {
	case schema.Reference:
		if x.Address != nil {
			return nil
		}
		return []refExpect{{x.OfScopeId, x.OfType}}
	case schema.AnyExpression:
		return []refExpect{{"", x.OfType}}
	case schema.OneOf:
		var out []refExpect
		for _, m := range x {
			out = append(out, refExpectations(m)...)
		}
		return out
	}
	return nil
}

// attrAt finds the attribute whose value holds the cursor, with the constraint the effective
// schema gives it and whether the value is "top level" (empty or a bare name being typed).
func attrAt(root *schema.BodySchema, body *hclsyntax.Body, pos hcl.Pos) (*hclsyntax.Attribute, schema.Constraint, *model.BodyCtx, bool) {
	bc := model.BodyAt(root, body, pos)
	if bc.Eff == nil || bc.Unknown {
		return nil, nil, bc, false
	}
	for name, a := range bc.Body.Attributes {
		r := a.Expr.Range()
		if !(r.Start.Byte <= pos.Byte && pos.Byte <= r.End.Byte) && a.EqualsRange.End.Byte != pos.Byte {
			continue
		}
		var cons schema.Constraint
		if as, ok := bc.Eff.Attributes[name]; ok {
			cons = as.Constraint
		} else if bc.Eff.Ext.Count && name == "count" {
			cons = schema.AnyExpression{OfType: cty.Number}
		} else if bc.Eff.Ext.ForEach && name == "for_each" {
			return a, nil, bc, false
		} else if bc.Eff.Any != nil {
			cons = bc.Eff.Any.Constraint
		} else {
			return nil, nil, bc, false
		}
		top := false
		switch e := a.Expr.(type) {
		case *hclsyntax.ScopeTraversalExpr:
			top = true
			for _, st := range e.Traversal {
				// inside index brackets the expected type is the key's, not the attribute's
				if _, ok := st.(hcl.TraverseIndex); ok && st.SourceRange().Start.Byte < pos.Byte {
					top = false
				}
			}
		case *hclsyntax.LiteralValueExpr:
			top = e.Val == cty.DynamicVal || e.Val.Type() == cty.Bool
		}
		return a, cons, bc, top
	}
	return nil, nil, bc, false
}

func c08Result(cx *explore.Ctx, q run.Query, r run.Result) {
	if r.Panic != nil || r.Err != nil {
		return
	}
	cands, ok := r.Val.(lang.Candidates)
	if !ok || len(cands.List) == 0 {
		return
	}
	f := cx.W.Ctx(0).Files[cx.Case.File]
	if f == nil {
		return
	}
	body, ok := f.Body.(*hclsyntax.Body)
	if !ok {
		return
	}
	attr, cons, bc, top := attrAt(cx.Case.Entry.Mk(), body, q.Pos)
	if attr == nil {
		return
	}
	all := flattenTargets(cx.W.Ctx(0).ReferenceTargets)
	fns := gen.Functions()
	add := func(clause, site, detail string) {
		v := witness(cx, "sweep", q)
		v.Clause = clause
		v.Site = site + nodeClass(cx, q)
		if clause == "reference:attribute-being-edited" {
			v.Site = site
		}
		if strings.HasPrefix(clause, "literal:") && cx.Case.Entry.Cons != nil {
			v.Site = site + "/" + cx.Case.Entry.Cons.Name
		}
		v.Detail = fmt.Sprintf("%s [schema %s]: %s\nfile:\n%s", q, cx.Case.Entry.ID, detail, cx.Case.Text)
		cx.C.Add(v)
	}
	exps := refExpectations(cons)
	// the operand of an operator directly under an AnyExpression attribute: the expected type is the operator's
	// parameter type (number for arithmetic and comparison, bool for logic, anything for equality)
	if _, isAny := cons.(schema.AnyExpression); isAny && !top {
		if pt, ok := operandTypeAt(attr.Expr, q.Pos); ok {
			exps, top = []refExpect{{"", pt}}, true
			cons = schema.AnyExpression{OfType: pt}
			cx.L.Count("operand_positions", 1)
		}
	}
	selfOn := bc.Eff.Ext.SelfRefs
	for _, cd := range cands.List {
		typedTxt := ""
		if er := cd.TextEdit.Range; er.Start.Byte >= 0 && er.Start.Byte <= q.Pos.Byte && q.Pos.Byte <= len(cx.Src) {
			typedTxt = string(cx.Src[er.Start.Byte:q.Pos.Byte])
		}
		switch cd.Kind {
		case lang.ReferenceCandidateKind:
			cx.L.Count("reference_candidates", 1)
			var matches []reference.Target
			for _, t := range all {
				if t.Addr.String() == cd.Label || t.LocalAddr.String() == cd.Label {
					matches = append(matches, t)
				}
			}
			if len(matches) == 0 {
				add("reference:no-such-declaration", "reference", fmt.Sprintf("candidate %q is not the address of any collected declaration", cd.Label))
				continue
			}
			if !strings.HasPrefix(cd.Label, strings.TrimSpace(typedTxt)) {
				add("reference:prefix", "reference", fmt.Sprintf("candidate %q does not start with the typed text %q", cd.Label, typedTxt))
			}
			// visibility
			visible := false
			for _, t := range matches {
				if t.Addr.String() == cd.Label {
					visible = true // absolute names are visible everywhere (own-block rule checked below)
				} else if t.TargetableFromRangePtr == nil || (t.TargetableFromRangePtr.Filename == cx.Case.File && t.TargetableFromRangePtr.Start.Byte <= q.Pos.Byte && q.Pos.Byte <= t.TargetableFromRangePtr.End.Byte) {
					visible = true
				}
			}
			if !visible {
				add("reference:block-local-name-outside-its-block", "reference", fmt.Sprintf("candidate %q is a block-local name whose visible-from range does not hold the cursor", cd.Label))
			}
			if strings.HasPrefix(cd.Label, "self.") || cd.Label == "self" {
				onlyLocal := true
				for _, t := range matches {
					if t.Addr.String() == cd.Label {
						onlyLocal = false
					}
				}
				if onlyLocal && !selfOn {
					add("reference:self-where-not-enabled", "reference", fmt.Sprintf("candidate %q offered in a body that does not enable self references", cd.Label))
				}
			}
			// never the attribute being edited itself (unless it contains a nested declaration that fits)
			selfOnly := true
			for _, t := range matches {
				if t.RangePtr == nil || t.RangePtr.Filename != cx.Case.File || !(t.RangePtr.Start.Byte <= q.Pos.Byte && q.Pos.Byte <= t.RangePtr.End.Byte && t.RangePtr.Start.Byte >= attr.SrcRange.Start.Byte && t.RangePtr.End.Byte <= attr.SrcRange.End.Byte) {
					selfOnly = false
				}
			}
			if selfOnly {
				add("reference:attribute-being-edited", "reference:"+strings.SplitN(cd.Label, ".", 2)[0], fmt.Sprintf("candidate %q is the attribute being edited itself", cd.Label))
			}
			// fits (top-level positions, where the expected scope/type is the constraint's)
			if top && len(exps) > 0 {
				fits := false
				for _, t := range matches {
					for _, e := range exps {
						if fitsDeep(t, e.scope, e.typ) {
							fits = true
						}
					}
				}
				if !fits {
					add("reference:does-not-fit", "reference", fmt.Sprintf("candidate %q (types %v) neither satisfies the expected scope/type %v nor contains a nested declaration that does", cd.Label, targetTypes(matches), exps))
				}
				cx.L.Count("fit_checks", 1)
			}
		case lang.FunctionCandidateKind:
			cx.L.Count("function_candidates", 1)
			sig, known := fns[cd.Label]
			if !known {
				add("function:unknown", "function", fmt.Sprintf("candidate %q is not a known function", cd.Label))
				continue
			}
			// (the parser accepts blanks around the :: of a namespaced name: compared with blanks removed)
			if !strings.HasPrefix(cd.Label, strings.NewReplacer(" ", "", "\t", "").Replace(typedTxt)) {
				add("function:prefix", "function", fmt.Sprintf("candidate %q does not start with the typed text %q", cd.Label, typedTxt))
			}
			if top && len(exps) > 0 {
				okConv := false
				for _, e := range exps {
					if e.typ == cty.NilType {
						continue
					}
					if e.typ == cty.DynamicPseudoType || sig.ReturnType == cty.DynamicPseudoType {
						okConv = true
					} else if _, err := convert.Convert(cty.UnknownVal(sig.ReturnType), e.typ); err == nil {
						okConv = true
					}
				}
				if !okConv {
					add("function:return-type-does-not-convert", "function", fmt.Sprintf("candidate %q returns %s, expected %v", cd.Label, sig.ReturnType.FriendlyName(), exps))
				}
				cx.L.Count("fit_checks", 1)
			}
		case lang.KeywordCandidateKind:
			if kw, ok := cons.(schema.Keyword); ok && top {
				if cd.Label != kw.Keyword {
					add("keyword:not-admitted", "keyword", fmt.Sprintf("candidate %q, the constraint admits only %q", cd.Label, kw.Keyword))
				}
				cx.L.Count("fit_checks", 1)
			}
		case lang.BoolCandidateKind:
			// (type names such as `bool` use the same candidate kind: only the literals are meant here)
			if top && (cd.Label == "true" || cd.Label == "false") {
				admitted := constraintAdmitsBool(cons, cd.Label)
				if !admitted {
					add("bool:not-admitted", "bool", fmt.Sprintf("candidate %q is not admitted by the constraint at the cursor", cd.Label))
				}
				cx.L.Count("fit_checks", 1)
			}
		}
	}
	cx.L.Count("nontrivial", 1)
	h, _ := run.Hash(r)
	cx.L.OutcomeHash(h)
	// exactness of keyword / bool sets at top-level positions
	if _, isTD := cons.(schema.TypeDeclaration); isTD && !top {
		// type declarations are completed inside their own call syntax at any depth
		c08LiteralRoundTrip(cx, q, cons, cands, attr, add)
	}
	if top {
		c08Exact(cx, q, cons, cands, attr, add)
		c08LiteralRoundTrip(cx, q, cons, cands, attr, add)
	}
	// round trip
	if q.Kind == run.Completion {
		c08RoundTrip(cx, q, cands, all, exps, top, add)
	}
}

func targetTypes(ts []reference.Target) []string {
	var out []string
	for _, t := range ts {
		if t.Type == cty.NilType {
			out = append(out, "nil/"+string(t.ScopeId))
		} else {
			out = append(out, t.Type.FriendlyName()+"/"+string(t.ScopeId))
		}
	}
	return out
}

func constraintAdmitsBool(c schema.Constraint, label string) bool {
	switch x := c.(type) {
	case schema.LiteralType:
		return x.Type == cty.Bool || x.Type == cty.DynamicPseudoType
	case schema.AnyExpression:
		return x.OfType == cty.Bool || x.OfType == cty.DynamicPseudoType
	case schema.LiteralValue:
		return x.Value.Type() == cty.Bool && ((x.Value.True() && label == "true") || (x.Value.False() && label == "false"))
	case schema.OneOf:
		for _, m := range x {
			if constraintAdmitsBool(m, label) {
				return true
			}
		}
	}
	return false
}

// c08Exact: keyword and boolean candidates are EXACTLY those the constraint admits with the typed prefix.
func c08Exact(cx *explore.Ctx, q run.Query, cons schema.Constraint, cands lang.Candidates, attr *hclsyntax.Attribute, add func(clause, site, detail string)) {
	typed := ""
	if st, ok := attr.Expr.(*hclsyntax.ScopeTraversalExpr); ok && len(st.Traversal) == 1 {
		r := st.Range()
		if r.Start.Byte <= q.Pos.Byte && q.Pos.Byte <= r.End.Byte {
			typed = string(cx.Src[r.Start.Byte:q.Pos.Byte])
		} else {
			return
		}
	} else if lv, ok := attr.Expr.(*hclsyntax.LiteralValueExpr); !ok || lv.Val != cty.DynamicVal {
		return
	} else if q.Pos.Byte != lv.Range().Start.Byte && q.Pos.Byte != attr.EqualsRange.End.Byte {
		return
	}
	want := map[string]bool{}
	var collect func(c schema.Constraint)
	collect = func(c schema.Constraint) {
		switch x := c.(type) {
		case schema.Keyword:
			if strings.HasPrefix(x.Keyword, typed) {
				want["kw:"+x.Keyword] = true
			}
		case schema.LiteralType:
			if x.Type == cty.Bool {
				for _, b := range []string{"true", "false"} {
					if strings.HasPrefix(b, typed) {
						want["bool:"+b] = true
					}
				}
			}
		case schema.LiteralValue:
			if x.Value.Type() == cty.Bool {
				b := "false"
				if x.Value.True() {
					b = "true"
				}
				if strings.HasPrefix(b, typed) {
					want["bool:"+b] = true
				}
			}
		case schema.OneOf:
			for _, m := range x {
				collect(m)
			}
		}
	}
	collect(cons)
	got := map[string]bool{}
	for _, cd := range cands.List {
		switch cd.Kind {
		case lang.KeywordCandidateKind:
			got["kw:"+cd.Label] = true
		case lang.BoolCandidateKind:
			if cd.Label == "true" || cd.Label == "false" {
				got["bool:"+cd.Label] = true
			}
		}
	}
	// AnyExpression of bool also offers literals; only constraints made of keyword / literal kinds are exact
	if hasAny(cons) {
		return
	}
	cx.L.Count("exact_sets", 1)
	for k := range want {
		if !got[k] {
			add("admitted:missing", strings.SplitN(k, ":", 2)[0], fmt.Sprintf("the constraint admits %s with typed prefix %q but it is not offered (offered: %v)", k, typed, got))
		}
	}
	for k := range got {
		if !want[k] {
			add("admitted:extra", strings.SplitN(k, ":", 2)[0], fmt.Sprintf("%s is offered but not admitted with typed prefix %q (admitted: %v)", k, typed, want))
		}
	}
}

func hasAny(c schema.Constraint) bool {
	switch x := c.(type) {
	case schema.AnyExpression:
		return true
	case schema.LiteralType:
		return x.Type == cty.DynamicPseudoType
	case schema.OneOf:
		for _, m := range x {
			if hasAny(m) {
				return true
			}
		}
	}
	return false
}

// c08RoundTrip: accepting a reference candidate whose own declaration fits produces a reference that
// go-to-definition resolves to that declaration.
func c08RoundTrip(cx *explore.Ctx, q run.Query, cands lang.Candidates, all []reference.Target, exps []refExpect, top bool, add func(clause, site, detail string)) {
	if !top || len(exps) == 0 {
		return
	}
	done := 0
	for _, cd := range cands.List {
		if cd.Kind != lang.ReferenceCandidateKind || done >= 4 {
			continue
		}
		var decl *reference.Target
		for i := range all {
			t := &all[i]
			if t.Addr.String() != cd.Label || t.RangePtr == nil || t.RangePtr.Filename != cx.Case.File {
				continue
			}
			for _, e := range exps {
				if typeFits(*t, e.scope, e.typ) {
					decl = t
				}
			}
		}
		if decl == nil {
			continue
		}
		// (a declaration whose label is empty - a header cut in the middle - has an address that is no reference text)
		if _, d := hclsyntax.ParseTraversalAbs([]byte(cd.Label), "", hcl.InitialPos); d.HasErrors() {
			continue
		}
		er := cd.TextEdit.Range
		if er.Start.Byte < 0 || er.End.Byte > len(cx.Src) || er.Start.Byte > er.End.Byte {
			continue
		}
		done++
		nt := string(cx.Src[:er.Start.Byte]) + cd.TextEdit.NewText + string(cx.Src[er.End.Byte:])
		delta := len(cd.TextEdit.NewText) - (er.End.Byte - er.Start.Byte)
		ncs := *cx.Case
		ncs.Text = nt
		nw := world.Build(ncs.Spec())
		cx.L.Count("round_trips", 1)
		gq := run.Query{Kind: run.GotoDef, File: cx.Case.File, Pos: run.PosAt([]byte(nt), er.Start.Byte+1)}
		gr := run.Call(nw, gq)
		want := *decl.RangePtr
		if want.Start.Byte >= er.End.Byte {
			want.Start.Byte += delta
			want.End.Byte += delta
		}
		found := false
		if ts, ok := gr.Val.(decoder.ReferenceTargets); ok {
			for _, t := range ts {
				if t != nil && t.Range.Start.Byte == want.Start.Byte && t.Range.End.Byte == want.End.Byte {
					found = true
				}
			}
		}
		if !found {
			add("roundtrip:accepted-reference-does-not-resolve", "reference", fmt.Sprintf("accepting %q (declaration at bytes %d-%d fits the expected %v) yields %q, where go-to-definition at the inserted text does not return that declaration (got %s)",
				cd.Label, decl.RangePtr.Start.Byte, decl.RangePtr.End.Byte, exps, nt, trunc(run.CanonResult(gr), 300)))
		}
	}
}

// C08: value completion offers only what fits.
func C08(tier string) int {
	return sweepCheck("C08", tier, []run.Kind{run.Completion, run.CompletionPrefill},
		explore.CaseOpts{Prefixes: true}, c08Result,
		report.FinishOpts{Level: "exploration",
			Rule:         "E1 sweep of completion inside attribute values (one-constraint bodies for every constraint kind and nesting, value texts covering operators, templates, conditionals, for, index, call arguments, parentheses, collections; structure templates with count/each/self, dependent bodies, wide bodies; every cursor). Per candidate (one-directional): a reference candidate is the address of a collected declaration, starts with the typed text, is visible (block-local names only inside their visible-from range, self.* only where enabled), is not the attribute being edited, and at top-level value positions satisfies the constraint's scope/type or contains a nested declaration that does; a function candidate is a known function with the typed prefix whose return type converts; at top-level positions keyword and boolean candidates are EXACTLY those the constraint admits with the typed prefix. Round trip: accepting a reference candidate whose own declaration fits, re-parsing and re-collecting, go-to-definition at the inserted text returns that declaration. non-trivial = non-empty candidate list inside a value",
			Assumptions:  []string{"expected scope/type is only known at top-level value positions (the constraint's own); nested positions get the declaration/prefix/visibility checks only"},
			BiteCounters: []string{"reference_candidates", "function_candidates", "fit_checks", "round_trips"}}, nil)
}


// c08LiteralRoundTrip: a literal candidate offered for a LiteralValue constraint, once accepted, IS that value:
// the edited file parses and the attribute evaluates to the constraint's value.
func c08LiteralRoundTrip(cx *explore.Ctx, q run.Query, cons schema.Constraint, cands lang.Candidates, attr *hclsyntax.Attribute, add func(clause, site, detail string)) {
	lv, ok := cons.(schema.LiteralValue)
	_, isLT := cons.(schema.LiteralType)
	if _, isTD := cons.(schema.TypeDeclaration); isTD {
		// a type declaration candidate is a skeleton like a literal of a type: it only has to be well-formed
		isLT = true
	}
	if q.Kind != run.Completion || (!ok && !isLT) || (ok && (lv.Value.IsNull() || !lv.Value.IsWhollyKnown())) {
		return
	}
	_, od := hclsyntax.ParseConfig(cx.Src, cx.Case.File, hcl.InitialPos)
	origClean := !od.HasErrors()
	// (a value that already spans several lines is replaced piecemeal: no claim about the text left behind)
	if er := attr.Expr.Range(); er.Start.Line != er.End.Line {
		return
	}
	// candidates of a completion hook are the hook's business
	if as := attrSchemaOf(cx, attr); as != nil && len(as.CompletionHooks) > 0 {
		return
	}
	for _, cd := range cands.List {
		switch cd.Kind {
		case lang.StringCandidateKind, lang.NumberCandidateKind, lang.BoolCandidateKind, lang.ListCandidateKind, lang.SetCandidateKind, lang.TupleCandidateKind:
		case lang.MapCandidateKind, lang.ObjectCandidateKind:
			// (where a value is being edited, object and map candidates of a literal value insert the braces
			// only - the items are completed one by one afterwards; the whole text is offered for a missing value)
			if !isLT && !strings.Contains(cd.TextEdit.NewText, "=") {
				continue
			}
		case lang.AttributeCandidateKind:
			// (the `name = type` item of an object type declaration)
			if _, isTD := cons.(schema.TypeDeclaration); !isTD {
				continue
			}
		default:
			continue
		}
		er := cd.TextEdit.Range
		if er.Start.Byte < 0 || er.End.Byte > len(cx.Src) || er.Start.Byte > er.End.Byte {
			continue
		}
		// the snippet form of a fixed value inserts the same text as the plain form (there is nothing to fill in)
		if ok && cd.TextEdit.Snippet != "" {
			if stops, rendered := scanSnippet(cd.TextEdit.Snippet); len(stops) == 0 && rendered != cd.TextEdit.NewText {
				add("literal:snippet-inserts-other-text", "literal", fmt.Sprintf("candidate %q: the snippet %q inserts %q, the plain text is %q", cd.Label, cd.TextEdit.Snippet, rendered, cd.TextEdit.NewText))
			}
		}
		text := string(cx.Src[:er.Start.Byte]) + cd.TextEdit.NewText + string(cx.Src[er.End.Byte:])
		f, d := hclsyntax.ParseConfig([]byte(text), cx.Case.File, hcl.InitialPos)
		cx.L.Count("literal_round_trips", 1)
		_, isTD := cons.(schema.TypeDeclaration)
		if isTD && cd.Kind == lang.AttributeCandidateKind {
			// the `name = type` item belongs between the braces of an object type
			inside := false
			_ = hclsyntax.VisitAll(attr.Expr, func(n hclsyntax.Node) hcl.Diagnostics {
				if oc, ok := n.(*hclsyntax.ObjectConsExpr); ok && oc.OpenRange.End.Byte <= er.Start.Byte && er.End.Byte <= oc.SrcRange.End.Byte-1 && oc.SrcRange.End.Byte > oc.OpenRange.End.Byte {
					inside = true
				}
				return nil
			})
			if !inside && origClean {
				add("type-declaration:attribute-item-outside-braces", "type-declaration", fmt.Sprintf("the object attribute item %q is offered at bytes %d-%d, which is not between the braces of an object type", cd.Label, er.Start.Byte, er.End.Byte))
				continue
			}
		}
		if d.HasErrors() && (!origClean || isTD) {
			// the file was broken before: the remaining errors can only be pinned on the candidate if a plain
			// `null` at the same place would have left a sound file (the value was merely missing)
			probe := string(cx.Src[:er.Start.Byte]) + "null" + string(cx.Src[er.End.Byte:])
			if _, pd := hclsyntax.ParseConfig([]byte(probe), cx.Case.File, hcl.InitialPos); pd.HasErrors() {
				continue
			}
		}
		if d.HasErrors() {
			add("literal:accepted-text-does-not-parse", "literal", fmt.Sprintf("accepting %q (plain text %q) leaves a file that does not parse: %s", cd.Label, cd.TextEdit.NewText, d.Error()))
			continue
		}
		var got *hclsyntax.Attribute
		_ = hclsyntax.VisitAll(f.Body.(*hclsyntax.Body), func(n hclsyntax.Node) hcl.Diagnostics {
			if a, ok := n.(*hclsyntax.Attribute); ok && a.Name == attr.Name && a.NameRange.Start.Byte == attr.NameRange.Start.Byte {
				got = a
			}
			return nil
		})
		if got == nil {
			continue
		}
		if isLT {
			continue // a literal of the type is offered as a skeleton: it only has to be well-formed
		}
		v, vd := got.Expr.Value(nil)
		if vd.HasErrors() {
			add("literal:accepted-text-is-not-the-value", "literal", fmt.Sprintf("accepting %q (plain text %q) does not evaluate to a literal: %s", cd.Label, cd.TextEdit.NewText, vd.Error()))
			continue
		}
		if cv, err := convert.Convert(v, lv.Value.Type()); err != nil || !cv.RawEquals(lv.Value) {
			add("literal:accepted-text-is-not-the-value", "literal", fmt.Sprintf("accepting %q (plain text %q) evaluates to %#v, the constraint admits only %#v", cd.Label, cd.TextEdit.NewText, v, lv.Value))
		}
	}
}

// attrSchemaOf finds the schema of a written attribute by name in the one-constraint body (root or blk / nb).
func attrSchemaOf(cx *explore.Ctx, attr *hclsyntax.Attribute) *schema.AttributeSchema {
	root := cx.Case.Entry.Mk()
	if root == nil {
		return nil
	}
	f := cx.W.Ctx(0).Files[cx.Case.File]
	body, ok := f.Body.(*hclsyntax.Body)
	if !ok {
		return nil
	}
	if a, ok := body.Attributes[attr.Name]; ok && a == attr {
		return root.Attributes[attr.Name]
	}
	return nil
}


// operandTypeAt: e is a binary or unary operation and pos lies in (or right behind) a plain operand of it
// (a bare name being typed); returns the operator's parameter type for that operand.
func operandTypeAt(e hclsyntax.Expression, pos hcl.Pos) (cty.Type, bool) {
	plain := func(x hclsyntax.Expression) bool {
		st, ok := x.(*hclsyntax.ScopeTraversalExpr)
		if !ok {
			return false
		}
		for _, s := range st.Traversal {
			if _, idx := s.(hcl.TraverseIndex); idx {
				return false
			}
		}
		r := st.Range()
		return r.Start.Byte <= pos.Byte && pos.Byte <= r.End.Byte
	}
	switch op := e.(type) {
	case *hclsyntax.BinaryOpExpr:
		if op.Op == nil || op.Op.Impl.Params() == nil || len(op.Op.Impl.Params()) != 2 {
			return cty.NilType, false
		}
		if plain(op.LHS) {
			return op.Op.Impl.Params()[0].Type, true
		}
		if plain(op.RHS) {
			return op.Op.Impl.Params()[1].Type, true
		}
	case *hclsyntax.UnaryOpExpr:
		if op.Op == nil || len(op.Op.Impl.Params()) != 1 {
			return cty.NilType, false
		}
		if plain(op.Val) {
			return op.Op.Impl.Params()[0].Type, true
		}
	}
	return cty.NilType, false
}
