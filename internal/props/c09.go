package props

import (
	"github.com/hashicorp/hcl/v2/ext/typeexpr"
	"fmt"
	"sort"
	"strings"

	"github.com/hashicorp/hcl-lang/lang"
	"github.com/hashicorp/hcl-lang/reference"
	"github.com/hashicorp/hcl-lang/schema"
	"github.com/hashicorp/hcl/v2"
	"github.com/hashicorp/hcl/v2/hclsyntax"
	"github.com/zclconf/go-cty/cty"

	"verif/internal/explore"
	"verif/internal/model"
	"verif/internal/report"
	"verif/internal/run"
)

// ---- structural invariants of the target forest (all files) -----------------------------------------

// astRanges collects the extents of every item a target may legitimately point at: blocks,
// attributes, expressions (tuple elements, object items / values), bodies.
func astRanges(body *hclsyntax.Body) map[string]bool {
	set := map[string]bool{}
	add := func(r hcl.Range) { set[fmt.Sprintf("%d-%d", r.Start.Byte, r.End.Byte)] = true }
	_ = hclsyntax.VisitAll(body, func(n hclsyntax.Node) hcl.Diagnostics {
		add(n.Range())
		switch x := n.(type) {
		case *hclsyntax.ObjectConsExpr:
			for _, it := range x.Items {
				add(hcl.RangeBetween(it.KeyExpr.Range(), it.ValueExpr.Range()))
			}
		case *hclsyntax.Attribute:
			add(x.SrcRange)
			add(x.NameRange)
		case *hclsyntax.Block:
			add(x.Range())
			add(x.DefRange())
			add(x.Body.Range())
			set[fmt.Sprintf("s%d", x.Range().Start.Byte)] = true
			set[fmt.Sprintf("e%d", x.Range().End.Byte)] = true
		case *hclsyntax.Body:
			add(x.EndRange)
		}
		return nil
	})
	return set
}

func stepOf(child, parent lang.Address) (lang.AddressStep, bool) {
	if len(child) != len(parent)+1 {
		return nil, false
	}
	for i := range parent {
		if child[i].String() != parent[i].String() {
			return nil, false
		}
	}
	return child[len(child)-1], true
}

// tuples maps the extent of an attribute (and of the tuple itself) to the written tuple expression.
var _ = 0

func c09Invariants(where string, ts reference.Targets, parent *reference.Target, known map[string]bool, attrRanges map[string]bool, tuples map[string]*hclsyntax.TupleConsExpr, bad func(clause, detail string)) int {
	n := 0
	type sib struct {
		idx   int
		start int
	}
	var numeric []sib
	keys := map[string]string{}
	for i := range ts {
		t := &ts[i]
		n++
		name := t.Addr.String()
		if name == "" {
			name = "local:" + t.LocalAddr.String()
		}
		if len(t.Addr) == 0 && len(t.LocalAddr) == 0 {
			bad("target:no-address", fmt.Sprintf("%s[%d] has neither address nor local address", where, i))
		}
		if known != nil && t.RangePtr != nil && t.DefRangePtr != nil && t.RangePtr.Filename == t.DefRangePtr.Filename {
			if t.DefRangePtr.Start.Byte < t.RangePtr.Start.Byte || t.DefRangePtr.End.Byte > t.RangePtr.End.Byte {
				bad("target:defrange-outside-range", fmt.Sprintf("%s: definition range %s outside range %s", name, fmtRange(*t.DefRangePtr), fmtRange(*t.RangePtr)))
			}
		}
		// (an empty range stands for a declaration the schema describes but the file does not write)
		if t.RangePtr != nil && known != nil && t.RangePtr.Start.Byte < t.RangePtr.End.Byte {
			// a collection of nested blocks spans from the first block's start to the last one's end
			if !known[fmt.Sprintf("%d-%d", t.RangePtr.Start.Byte, t.RangePtr.End.Byte)] &&
				!(known[fmt.Sprintf("s%d", t.RangePtr.Start.Byte)] && known[fmt.Sprintf("e%d", t.RangePtr.End.Byte)]) {
				bad("target:range-is-no-item-extent", fmt.Sprintf("%s: range %s is not the extent of any block, attribute, expression or item of the file", name, fmtRange(*t.RangePtr)))
			}
		}
		if parent != nil {
			var step lang.AddressStep
			ok := false
			if len(parent.Addr) > 0 && len(t.Addr) > 0 {
				step, ok = stepOf(t.Addr, parent.Addr)
				if !ok {
					clause := "nested:address-not-parent-plus-one-step"
					if len(t.Addr) > 0 && t.Addr[0].String() != parent.Addr[0].String() {
						// a reference that itself declares an address (Reference{Address}) written inside an inferred body
						clause = "nested:foreign-declaration-among-nested-targets"
					}
					bad(clause, fmt.Sprintf("nested %s under %s", t.Addr.String(), parent.Addr.String()))
				}
			}
			if len(parent.LocalAddr) > 0 && len(t.LocalAddr) > 0 {
				if ls, lok := stepOf(t.LocalAddr, parent.LocalAddr); !lok {
					bad("nested:local-address-not-parent-plus-one-step", fmt.Sprintf("nested %s under %s", t.LocalAddr.String(), parent.LocalAddr.String()))
				} else if ok && ls.String() != step.String() {
					bad("nested:local-and-absolute-step-differ", fmt.Sprintf("%s vs %s", t.LocalAddr.String(), t.Addr.String()))
				}
			}
			if ok {
				k := step.String()
				here := "-"
				if t.RangePtr != nil {
					here = fmtRange(*t.RangePtr)
				}
				if prev, dup := keys[k]; dup {
					// a key the source writes twice ({ foo = 1, foo = 2 }) is declared twice, at two places; what must
					// not happen is two targets for one written item, or two elements with one list index
					is, isIdx := step.(lang.IndexStep)
					if prev == here || here == "-" || (isIdx && is.Key.Type() == cty.Number) {
						bad("nested:duplicate-step", fmt.Sprintf("two nested targets %s%s (at %s and %s)", parent.Addr.String(), k, prev, here))
					}
				}
				keys[k] = here
				if is, isIdx := step.(lang.IndexStep); isIdx && is.Key.Type() == cty.Number && t.RangePtr != nil && t.RangePtr.End.Byte > t.RangePtr.Start.Byte {
					f, _ := is.Key.AsBigFloat().Int64()
					numeric = append(numeric, sib{int(f), t.RangePtr.Start.Byte})
					// list index = the element's real position in the written tuple
					if parent.RangePtr != nil && tuples != nil {
						if tc := tuples[fmt.Sprintf("%d-%d", parent.RangePtr.Start.Byte, parent.RangePtr.End.Byte)]; tc != nil {
							if int(f) >= len(tc.Exprs) || tc.Exprs[int(f)].Range() != *t.RangePtr {
								bad("nested:index-not-position", fmt.Sprintf("%s: element with index %d is at %s, which is not element %d of the written list", name, f, fmtRange(*t.RangePtr), f))
							}
						}
					}
				}
			}
			// elements of a written value lie inside that value's range
			if known != nil && parent.RangePtr != nil && t.RangePtr != nil && t.RangePtr.End.Byte > t.RangePtr.Start.Byte && parent.RangePtr.Filename == t.RangePtr.Filename &&
				attrRanges[fmt.Sprintf("%d-%d", parent.RangePtr.Start.Byte, parent.RangePtr.End.Byte)] {
				if t.RangePtr.Start.Byte < parent.RangePtr.Start.Byte || t.RangePtr.End.Byte > parent.RangePtr.End.Byte {
					bad("nested:element-outside-value", fmt.Sprintf("%s range %s outside its parent's %s", name, fmtRange(*t.RangePtr), fmtRange(*parent.RangePtr)))
				}
			}
		}
		n += c09Invariants(where+"/"+name, t.NestedTargets, t, known, attrRanges, tuples, bad)
	}
	// list index = source order, indexes 0..k-1
	if len(numeric) > 0 {
		sort.Slice(numeric, func(i, j int) bool { return numeric[i].idx < numeric[j].idx })
		for i, s := range numeric {
			if i > 0 && s.start < numeric[i-1].start {
				bad("nested:index-not-source-order", fmt.Sprintf("%s: element %d starts before element %d", where, s.idx, numeric[i-1].idx))
				break
			}
		}
	}
	// sibling elements are distinct places: pairwise disjoint ranges (same-address pairs aside)
	for i := range ts {
		for j := i + 1; j < len(ts); j++ {
			a, b := ts[i], ts[j]
			if parent == nil || a.RangePtr == nil || b.RangePtr == nil || a.Addr.String() == b.Addr.String() {
				continue
			}
			_, ai := lastIndex(a.Addr)
			_, bi := lastIndex(b.Addr)
			if !ai || !bi {
				continue
			}
			if a.RangePtr.Start.Byte < b.RangePtr.End.Byte && b.RangePtr.Start.Byte < a.RangePtr.End.Byte {
				bad("nested:element-ranges-overlap", fmt.Sprintf("%s (%s) and %s (%s) overlap: an element's range must be its own extent", a.Addr.String(), fmtRange(*a.RangePtr), b.Addr.String(), fmtRange(*b.RangePtr)))
			}
		}
	}
	return n
}

func lastIndex(a lang.Address) (lang.IndexStep, bool) {
	if len(a) == 0 {
		return lang.IndexStep{}, false
	}
	s, ok := a[len(a)-1].(lang.IndexStep)
	return s, ok
}

func c09Sweep(cx *explore.Ctx, q run.Query, r run.Result) {
	if r.Panic != nil || r.Err != nil {
		return
	}
	ts, ok := r.Val.(reference.Targets)
	if !ok {
		return
	}
	f := cx.W.Ctx(0).Files[cx.Case.File]
	if f == nil {
		return
	}
	body, ok := f.Body.(*hclsyntax.Body)
	if !ok {
		return
	}
	var mine reference.Targets
	for _, t := range ts {
		if t.RangePtr == nil || t.RangePtr.Filename == cx.Case.File {
			mine = append(mine, t)
		}
	}
	_, pd := hclsyntax.ParseConfig(cx.Src, cx.Case.File, hcl.InitialPos)
	clean := !pd.HasErrors()
	var known map[string]bool
	if clean {
		known = astRanges(body)
	}
	attrR := map[string]bool{}
	_ = hclsyntax.VisitAll(body, func(n hclsyntax.Node) hcl.Diagnostics {
		if a, ok := n.(*hclsyntax.Attribute); ok {
			attrR[fmt.Sprintf("%d-%d", a.SrcRange.Start.Byte, a.SrcRange.End.Byte)] = true
		}
		if e, ok := n.(hclsyntax.Expression); ok {
			attrR[fmt.Sprintf("%d-%d", e.Range().Start.Byte, e.Range().End.Byte)] = true
		}
		return nil
	})
	tuples := map[string]*hclsyntax.TupleConsExpr{}
	_ = hclsyntax.VisitAll(body, func(n hclsyntax.Node) hcl.Diagnostics {
		if a, ok := n.(*hclsyntax.Attribute); ok {
			if tc, ok := a.Expr.(*hclsyntax.TupleConsExpr); ok {
				tuples[fmt.Sprintf("%d-%d", a.SrcRange.Start.Byte, a.SrcRange.End.Byte)] = tc
			}
		}
		if tc, ok := n.(*hclsyntax.TupleConsExpr); ok {
			tuples[fmt.Sprintf("%d-%d", tc.Range().Start.Byte, tc.Range().End.Byte)] = tc
		}
		return nil
	})
	if !clean {
		tuples = nil
	}
	n := c09Invariants("targets", mine, nil, known, attrR, tuples, func(clause, detail string) {
		v := witness(cx, "sweep", q)
		v.Clause = clause
		v.Site = "collect_targets"
		v.Detail = detail + "\nfile:\n" + cx.Case.Text
		cx.C.Add(v)
	})
	cx.L.Count("targets_checked", int64(n))
	if clean {
		c09TopLevel(cx, q, mine, body)
		c09Unknown(cx, q, mine, body)
	}
	if n > 0 {
		cx.L.Count("nontrivial", 1)
		cx.L.Outcome(run.Canon(mine))
	}
}

// ---- top-level exactness on cleanly parsing files ----------------------------------------------

type expTarget struct {
	addr     string
	local    string
	rng      hcl.Range
	def      *hcl.Range
	typeless bool // AsReference: no type
	kind     string
	// wantType: the declared type (block addressable "as type of" an attribute holding a type declaration)
	wantType *cty.Type
	// onlyAllow: not required to exist (e.g. schema-supplied targetables of the block's body); only licenses the address
	onlyAllow bool
	// wantTyped: one of the targets must carry a type (attribute addressable by the type of its value)
	wantTyped bool
	// wantNested: addresses of the written attributes an inferred body-as-data target must hold as nested targets
	wantNested []string
}

func resolveBlockAddr(steps schema.Address, blk *hclsyntax.Block) (string, bool) {
	var sb strings.Builder
	n := 0
	for _, s := range steps {
		name := ""
		switch st := s.(type) {
		case schema.StaticStep:
			name = st.Name
		case schema.LabelStep:
			if int(st.Index) >= len(blk.Labels) {
				return "", false
			}
			name = blk.Labels[st.Index]
		case schema.AttrValueStep:
			a, ok := blk.Body.Attributes[st.Name]
			if !ok {
				if st.IsOptional {
					continue
				}
				return "", false
			}
			v, _ := a.Expr.Value(nil)
			if !v.IsWhollyKnown() || v.IsNull() || v.Type() != cty.String {
				return "", false
			}
			name = v.AsString()
		default:
			return "", false
		}
		if n > 0 {
			sb.WriteString(".")
		}
		sb.WriteString(name)
		n++
	}
	return sb.String(), n > 0
}

func c09Expected(e *model.Eff, body *hclsyntax.Body, unknownOK bool, out *[]expTarget) {
	if e == nil {
		return
	}
	for name, a := range body.Attributes {
		if e.Ext.Count && name == "count" {
			if _, own := e.Attributes[name]; !own {
				*out = append(*out, expTarget{local: "count.index", rng: a.SrcRange, def: a.NameRange.Ptr(), kind: "count"})
				continue
			}
		}
		if e.Ext.ForEach && name == "for_each" {
			if _, own := e.Attributes[name]; !own {
				*out = append(*out, expTarget{local: "each.key", rng: a.SrcRange, def: a.NameRange.Ptr(), kind: "each"},
					expTarget{local: "each.value", rng: a.SrcRange, def: a.NameRange.Ptr(), kind: "each"})
				continue
			}
		}
		as, ok := e.Attributes[name]
		if !ok {
			as = e.Any
		}
		if as == nil || as.Address == nil {
			continue
		}
		var sb strings.Builder
		okAddr := len(as.Address.Steps) > 0
		for i, s := range as.Address.Steps {
			if i > 0 {
				sb.WriteString(".")
			}
			switch st := s.(type) {
			case schema.StaticStep:
				sb.WriteString(st.Name)
			case schema.AttrNameStep:
				sb.WriteString(name)
			default:
				okAddr = false
			}
		}
		if !okAddr {
			continue
		}
		if as.Address.AsReference {
			*out = append(*out, expTarget{addr: sb.String(), rng: a.SrcRange, def: a.NameRange.Ptr(), typeless: true, kind: "attr-as-reference"})
		}
		// addressable by the type of its value: a typed target, whatever expression the value is written as
		// (only for type-aware constraints whose type is known without looking at the value)
		if as.Address.AsExprType {
			if ae, ok := as.Constraint.(schema.AnyExpression); ok && ae.OfType != cty.DynamicPseudoType && ae.OfType != cty.NilType {
				switch a.Expr.(type) {
				case *hclsyntax.ScopeTraversalExpr, *hclsyntax.RelativeTraversalExpr, *hclsyntax.FunctionCallExpr, *hclsyntax.ConditionalExpr, *hclsyntax.ForExpr,
					*hclsyntax.IndexExpr, *hclsyntax.SplatExpr, *hclsyntax.BinaryOpExpr, *hclsyntax.UnaryOpExpr, *hclsyntax.ParenthesesExpr:
					// an expression evaluated to a value of the declared type (a literal of another kind is a mismatch: no claim)
					*out = append(*out, expTarget{addr: sb.String(), rng: a.SrcRange, def: a.NameRange.Ptr(), kind: "attr-as-expr-type", wantTyped: true})
				}
			}
		}
	}
	for _, b := range body.Blocks {
		bs, ok := e.BlockSchemaFor(b.Type)
		if !ok {
			continue
		}
		if bs.Address != nil {
			if addr, ok := resolveBlockAddr(bs.Address.Steps, b); ok {
				def := b.DefRange()
				if bs.Address.AsReference {
					*out = append(*out, expTarget{addr: addr, rng: b.Range(), def: &def, typeless: true, kind: "block-as-reference"})
				}
				if bs.Address.AsTypeOf != nil {
					et := expTarget{addr: addr, rng: b.Range(), def: &def, kind: "block-as-type-of"}
					// the declared type: what the attribute named by AsTypeOf spells, whatever else the block holds
					if bs.Body != nil {
						if as, ok := bs.Body.Attributes[bs.Address.AsTypeOf.AttributeExpr]; ok {
							if _, isDecl := as.Constraint.(schema.TypeDeclaration); isDecl {
								if a, ok := b.Body.Attributes[bs.Address.AsTypeOf.AttributeExpr]; ok {
									if t, d := typeexpr.TypeConstraint(a.Expr); !d.HasErrors() {
										et.wantType = &t
									}
								}
							}
						}
					}
					*out = append(*out, et)
				}
				if bs.Address.BodyAsData || bs.Address.DependentBodyAsData {
					et := expTarget{addr: addr, rng: b.Range(), def: &def, kind: "block-body-as-data"}
					// inferred data: every written attribute of the addressable part of the effective body is an element
					ce := model.EffectiveIn(e, bs, b)
					for name := range b.Body.Attributes {
						_, static := map[string]*schema.AttributeSchema{}[name]
						if bs.Body != nil {
							_, static = bs.Body.Attributes[name]
						}
						dep := false
						if ce.Dep != nil {
							_, dep = ce.Dep.Attributes[name]
						}
						// (only where the element's existence is beyond doubt: a literal of the primitive type the attribute declares)
						as := ce.Attributes[name]
						if as == nil || !plainLiteralOf(as.Constraint, b.Body.Attributes[name].Expr) {
							continue
						}
						if (static && !dep && bs.Address.BodyAsData && bs.Address.InferBody) || (dep && bs.Address.DependentBodyAsData && bs.Address.InferDependentBody) {
							et.wantNested = append(et.wantNested, addr+"."+name)
						}
					}
					sort.Strings(et.wantNested)
					if !bs.Address.BodyAsData {
						et.kind = "block-dependent-body-as-data"
					}
					*out = append(*out, et)
				}
				if bs.Address.SupportUnknownNestedRefs {
					*out = append(*out, expTarget{addr: addr, rng: b.Range(), def: &def, kind: "block-unknown-nested"})
				}
			}
		}
		if bs.Body == nil && len(bs.DependentBody) == 0 {
			continue
		}
		ce := model.EffectiveIn(e, bs, b)
		// targetables the schema attaches to the (static or selected dependent) body sit on the block's extent
		for _, src := range []*schema.BodySchema{ce.Static, ce.Dep} {
			if src == nil {
				continue
			}
			for _, tb := range src.TargetableAs {
				if tb != nil {
					*out = append(*out, expTarget{addr: tb.Address.String(), rng: b.Range(), kind: "block-targetable-as", onlyAllow: true})
				}
			}
		}
		c09Expected(ce, b.Body, unknownOK, out)
	}
}

func c09TopLevel(cx *explore.Ctx, q run.Query, got reference.Targets, body *hclsyntax.Body) {
	var exp []expTarget
	c09Expected(model.RootEff(cx.Case.Entry.Mk()), body, false, &exp)
	key := func(addr, local string, r hcl.Range) string {
		return fmt.Sprintf("%s|%s|%d-%d", addr, local, r.Start.Byte, r.End.Byte)
	}
	gotSet := map[string][]reference.Target{}
	for _, t := range got {
		if t.RangePtr == nil {
			continue
		}
		local := ""
		if len(t.Addr) == 0 {
			local = t.LocalAddr.String()
		}
		k := key(t.Addr.String(), local, *t.RangePtr)
		gotSet[k] = append(gotSet[k], t)
	}
	add := func(clause, site, detail string) {
		v := witness(cx, "sweep", q)
		v.Clause = clause
		v.Site = site
		v.Detail = detail + "\nfile:\n" + cx.Case.Text
		cx.C.Add(v)
	}
	// nothing else is declared by a block: a target whose extent is a written block carries one of the addresses
	// the schema gives that block (an address step that cannot be resolved means: no declaration)
	blockAddrs := map[string]map[string]bool{}
	_ = hclsyntax.VisitAll(body, func(n hclsyntax.Node) hcl.Diagnostics {
		if b, ok := n.(*hclsyntax.Block); ok {
			r := b.Range()
			blockAddrs[fmt.Sprintf("%d-%d", r.Start.Byte, r.End.Byte)] = map[string]bool{}
		}
		return nil
	})
	for _, e := range exp {
		if strings.HasPrefix(e.kind, "block") {
			if m := blockAddrs[fmt.Sprintf("%d-%d", e.rng.Start.Byte, e.rng.End.Byte)]; m != nil {
				m[e.addr] = true
			}
		}
	}
	for _, t := range got {
		if t.RangePtr == nil || t.RangePtr.Filename != cx.Case.File || len(t.Addr) == 0 {
			continue
		}
		m, isBlock := blockAddrs[fmt.Sprintf("%d-%d", t.RangePtr.Start.Byte, t.RangePtr.End.Byte)]
		if !isBlock {
			continue
		}
		cx.L.Count("block_address_checks", 1)
		if !m[t.Addr.String()] {
			add("targets:unexpected-address-for-block", "block", fmt.Sprintf("the block at %s is collected as %s, the schema gives it %v", fmtRange(*t.RangePtr), t.Addr.String(), boolKeys(m)))
		}
	}
	for _, e := range exp {
		if e.onlyAllow {
			continue
		}
		cx.L.Count("expected_top_level", 1)
		ts := gotSet[key(e.addr, e.local, e.rng)]
		if len(ts) == 0 {
			add("targets:missing", e.kind, fmt.Sprintf("addressable declaration %s%s (%s) at %s has no target", e.addr, e.local, e.kind, fmtRange(e.rng)))
			continue
		}
		okType, okDef := false, false
		if len(e.wantNested) > 0 {
			cx.L.Count("inferred_element_checks", 1)
			have := map[string]bool{}
			for _, t := range ts {
				for _, n := range t.NestedTargets {
					have[n.Addr.String()] = true
				}
			}
			for _, n := range e.wantNested {
				if !have[n] {
					add("targets:inferred-element-missing", e.kind, fmt.Sprintf("%s is addressable as data with an inferred body, but its written attribute %s is no nested target (nested: %v)", e.addr, n, boolKeys(have)))
					break
				}
			}
		}
		if e.wantTyped {
			cx.L.Count("typed_target_checks", 1)
			typed := false
			for _, t := range ts {
				if t.Type != cty.NilType {
					typed = true
				}
			}
			if !typed {
				add("targets:typed-target-missing", e.kind, fmt.Sprintf("%s is addressable by the type of its value (%s) but has no typed target", e.addr, strings.TrimPrefix(exprKind(cx, e.rng), ":")))
			}
		}
		if e.wantType != nil {
			cx.L.Count("declared_type_checks", 1)
			has := false
			var gotTypes []string
			for _, t := range ts {
				if t.Type != cty.NilType {
					gotTypes = append(gotTypes, t.Type.FriendlyName())
					if t.Type.Equals(*e.wantType) {
						has = true
					}
				}
			}
			if !has {
				add("targets:declared-type", e.kind, fmt.Sprintf("%s declares the type %s, its target has %v", e.addr, e.wantType.FriendlyName(), gotTypes))
			}
		}
		for _, t := range ts {
			if !e.typeless || t.Type == cty.NilType {
				okType = true
			}
			if e.def == nil || (t.DefRangePtr != nil && *t.DefRangePtr == *e.def) {
				okDef = true
			}
		}
		if !okType {
			add("targets:as-reference-has-type", e.kind, fmt.Sprintf("%s: expected a type-less target", e.addr))
		}
		if !okDef {
			add("targets:definition-range", e.kind, fmt.Sprintf("%s%s: definition range is not the declaration's header/name %s", e.addr, e.local, fmtRange(*e.def)))
		}
	}
}

// unknownItems collects the extents of attributes and blocks the effective schema does not know.
func unknownItems(e *model.Eff, body *hclsyntax.Body, out *[]hcl.Range) {
	for name, a := range body.Attributes {
		if e == nil || !e.AttrKnown(name) {
			*out = append(*out, a.SrcRange)
		}
	}
	for _, b := range body.Blocks {
		var bs *schema.BlockSchema
		ok := false
		if e != nil {
			bs, ok = e.BlockSchemaFor(b.Type)
		}
		if !ok {
			*out = append(*out, b.Range())
			continue
		}
		if bs.Body == nil && len(bs.DependentBody) == 0 {
			continue
		}
		unknownItems(model.EffectiveIn(e, bs, b), b.Body, out)
	}
}

func c09Unknown(cx *explore.Ctx, q run.Query, got reference.Targets, body *hclsyntax.Body) {
	var unk []hcl.Range
	unknownItems(model.RootEff(cx.Case.Entry.Mk()), body, &unk)
	if len(unk) == 0 {
		return
	}
	var walk func(ts reference.Targets)
	walk = func(ts reference.Targets) {
		for _, t := range ts {
			if t.RangePtr != nil && t.RangePtr.Filename == cx.Case.File {
				for _, u := range unk {
					if t.RangePtr.Start.Byte >= u.Start.Byte && t.RangePtr.End.Byte <= u.End.Byte && t.RangePtr.End.Byte > t.RangePtr.Start.Byte {
						v := witness(cx, "sweep", q)
						v.Clause = "targets:for-unknown-item"
						v.Site = "collect_targets"
						v.Detail = fmt.Sprintf("target %s%s at %s lies in an item unknown to the schema (%s)\nfile:\n%s", t.Addr.String(), t.LocalAddr.String(), fmtRange(*t.RangePtr), fmtRange(u), cx.Case.Text)
						cx.C.Add(v)
					}
				}
			}
			walk(t.NestedTargets)
		}
	}
	walk(got)
	cx.L.Count("unknown_items_checked", int64(len(unk)))
}

// C09: reference targets are exactly the addressable declarations the schema describes.
func C09(tier string) int {
	return sweepCheck("C09", tier, []run.Kind{run.CollectTargets},
		explore.CaseOpts{Prefixes: true, Edits: true}, c09Sweep,
		report.FinishOpts{Level: "exploration",
			Rule:         "E1 sweep over every catalogue schema (addressable blocks: as reference, as type of an attribute, body-as-data with inferred bodies and list/set/map/object nested blocks, dependent-body-as-data, self references, targetable-as; addressable attributes as reference / as expression type, any-attribute bodies, wide bodies) x seed configs, their prefixes and single-token edits. On every forest: nested address = parent + exactly one step (absolute and local alike), numeric steps are 0..k-1 in source order, steps unique, elements of a written value inside the value's range, element ranges pairwise disjoint, definition range inside range. On cleanly parsing files additionally: every range is the extent of a real item of the syntax tree; every addressable declaration whose address resolves (model written from the statement: static/label/attribute-value steps, optional steps, count.index / each.* where enabled) has its target with the declaration's extent and header; as-reference targets are type-less; no target inside an item unknown to the effective schema. non-trivial = non-empty forest",
			Assumptions:  []string{"types of expression-typed targets are not predicted (only nil vs non-nil for as-reference)", "list-typed nested blocks that do not follow each other have no single extent: parent-contains-element is only required for written values (expressions)"},
			BiteCounters: []string{"targets_checked", "expected_top_level"}}, nil)
}


func boolKeys(m map[string]bool) []string {
	out := make([]string, 0, len(m))
	for k := range m {
		out = append(out, k)
	}
	sort.Strings(out)
	return out
}


// plainLiteralOf: expr is a literal string/number/bool and cons is LiteralType or AnyExpression of exactly that type.
func plainLiteralOf(cons schema.Constraint, expr hclsyntax.Expression) bool {
	var want cty.Type
	switch c := cons.(type) {
	case schema.LiteralType:
		want = c.Type
	case schema.AnyExpression:
		want = c.OfType
	default:
		return false
	}
	switch x := expr.(type) {
	case *hclsyntax.LiteralValueExpr:
		return !x.Val.IsNull() && x.Val.Type() == want && (want == cty.Number || want == cty.Bool)
	case *hclsyntax.TemplateExpr:
		return x.IsStringLiteral() && want == cty.String
	case *hclsyntax.ParenthesesExpr:
		// constants the syntax writes with an operator or parentheses are values of the type all the same
		return plainLiteralOf(cons, x.Expression)
	case *hclsyntax.UnaryOpExpr:
		if lit, ok := x.Val.(*hclsyntax.LiteralValueExpr); ok && !lit.Val.IsNull() {
			return (x.Op == hclsyntax.OpNegate && want == cty.Number && lit.Val.Type() == cty.Number) ||
				(x.Op == hclsyntax.OpLogicalNot && want == cty.Bool && lit.Val.Type() == cty.Bool)
		}
	}
	return false
}


// exprKind names the kind of the value expression of the attribute whose extent is r (a site class).
func exprKind(cx *explore.Ctx, r hcl.Range) string {
	f := cx.W.Ctx(0).Files[cx.Case.File]
	body, ok := f.Body.(*hclsyntax.Body)
	if !ok {
		return ""
	}
	out := ""
	_ = hclsyntax.VisitAll(body, func(n hclsyntax.Node) hcl.Diagnostics {
		if a, ok := n.(*hclsyntax.Attribute); ok && a.SrcRange == r {
			out = ":" + strings.TrimPrefix(fmt.Sprintf("%T", a.Expr), "*hclsyntax.")
		}
		return nil
	})
	return out
}
