package props

import (
	"fmt"
	"sort"
	"strings"

	"github.com/hashicorp/hcl-lang/lang"
	"github.com/hashicorp/hcl-lang/reference"
	"github.com/hashicorp/hcl-lang/schema"
	"github.com/hashicorp/hcl/v2"
	"github.com/hashicorp/hcl/v2/hclsyntax"
	"github.com/zclconf/go-cty/cty"

	"verif/internal/explore"
	"verif/internal/gen"
	"verif/internal/report"
	"verif/internal/run"
	"verif/internal/world"
)

var c10Types = map[string]cty.Type{
	"string": cty.String, "number": cty.Number, "bool": cty.Bool, "list": cty.List(cty.String), "map": cty.Map(cty.String),
	"object": cty.Object(map[string]cty.Type{"foo": cty.String, "bar": cty.Bool}), "tuple": cty.Tuple([]cty.Type{cty.String, cty.Bool}),
}

func c10Attrs() map[string]*schema.AttributeSchema {
	m := map[string]*schema.AttributeSchema{}
	for n, t := range c10Types {
		m["any_"+n] = &schema.AttributeSchema{Constraint: schema.AnyExpression{OfType: t}, IsOptional: true}
		m["lit_"+n] = &schema.AttributeSchema{Constraint: schema.LiteralType{Type: t}, IsOptional: true}
		m["dyn_"+n] = &schema.AttributeSchema{Constraint: schema.AnyExpression{OfType: cty.DynamicPseudoType}, IsOptional: true}
	}
	m["ref"] = &schema.AttributeSchema{Constraint: schema.Reference{OfType: cty.String}, IsOptional: true}
	m["oneof"] = &schema.AttributeSchema{Constraint: schema.OneOf{schema.Reference{OfScopeId: "sa"}, schema.LiteralType{Type: cty.String}, schema.AnyExpression{OfType: cty.String}}, IsOptional: true}
	// the pair terraform-schema writes for "a list literal or anything of list type": the first member leaves
	// literals to the second for completion, origins are collected whoever takes them
	m["oneof_skip"] = &schema.AttributeSchema{Constraint: schema.OneOf{
		schema.AnyExpression{OfType: cty.List(cty.String), SkipLiteralComplexTypes: true},
		schema.List{Elem: schema.AnyExpression{OfType: cty.String}}}, IsOptional: true}
	m["list_any"] = &schema.AttributeSchema{Constraint: schema.List{Elem: schema.AnyExpression{OfType: cty.String}}, IsOptional: true}
	m["set_any"] = &schema.AttributeSchema{Constraint: schema.Set{Elem: schema.AnyExpression{OfType: cty.String}}, IsOptional: true}
	m["map_any"] = &schema.AttributeSchema{Constraint: schema.Map{Elem: schema.AnyExpression{OfType: cty.String}, AllowInterpolatedKeys: true}, IsOptional: true}
	m["obj"] = &schema.AttributeSchema{Constraint: schema.Object{Attributes: schema.ObjectAttributes{
		"foo": {Constraint: schema.AnyExpression{OfType: cty.String}, IsOptional: true},
		"bar": {Constraint: schema.Reference{OfType: cty.String}, IsOptional: true},
		"lit": {Constraint: schema.LiteralType{Type: cty.String}, IsOptional: true}}}, IsOptional: true}
	m["tup"] = &schema.AttributeSchema{Constraint: schema.Tuple{Elems: []schema.Constraint{schema.AnyExpression{OfType: cty.String}, schema.LiteralType{Type: cty.String}}}, IsOptional: true}
	m["litval"] = &schema.AttributeSchema{Constraint: schema.LiteralValue{Value: cty.StringVal("x")}, IsOptional: true}
	m["kw"] = &schema.AttributeSchema{Constraint: schema.Keyword{Keyword: "kw"}, IsOptional: true}
	m["typedecl"] = &schema.AttributeSchema{Constraint: schema.TypeDeclaration{}, IsOptional: true}
	return m
}

func c10Schema() *schema.BodySchema {
	return &schema.BodySchema{
		Attributes: c10Attrs(),
		Blocks: map[string]*schema.BlockSchema{
			"blk": {Body: &schema.BodySchema{Attributes: c10Attrs(), Extensions: &schema.BodyExtensions{SelfRefs: true, Count: true, ForEach: true, DynamicBlocks: true},
				Blocks: map[string]*schema.BlockSchema{"inner": {Body: &schema.BodySchema{Attributes: c10Attrs()}}}}},
			"dep": {Labels: []*schema.LabelSchema{{Name: "t", IsDepKey: true}}, Body: &schema.BodySchema{},
				DependentBody: map[schema.SchemaKey]*schema.BodySchema{
					depKey([]schema.LabelDependent{lbl(0, "a")}, nil): {Attributes: c10Attrs(), Extensions: &schema.BodyExtensions{SelfRefs: true}},
				}},
		},
	}
}

type c10Case struct {
	text    string
	exp     []gen.Ref // ranges relative to the file
	desc    string
	context string
}

// place wraps an expression into a file at a body context; returns text and offset of the expression.
type c10Ctx struct {
	name   string
	prefix string
	suffix string
	self   bool // self refs are active here
	known  bool // the attribute is known to the schema here
}

func c10Contexts() []c10Ctx {
	return []c10Ctx{
		{"root", "", "\n", false, true},
		{"root-with-noise", "unknown_attr = noise.x\nunknown_block {\n  any_string = noise.y\n}\n", "\nlit_string = \"${noise.z}\"\n", false, true},
		{"block-selfrefs", "blk {\n  ", "\n}\n", true, true},
		{"nested-in-block", "blk {\n  inner {\n    ", "\n  }\n}\n", false, true},
		{"nested-in-block-after-attribute", "blk {\n  lit_string = \"s\"\n  inner {\n    ", "\n  }\n}\n", false, true},
		{"dynamic-content", "blk {\n  dynamic \"inner\" {\n    for_each = []\n    content {\n      ", "\n    }\n  }\n}\n", false, true},
		{"dependent-body", "dep \"a\" {\n  ", "\n}\n", true, true},
		{"dependent-body-unresolved", "dep \"zz\" {\n  ", "\n}\n", false, false},
		{"unknown-block", "nope {\n  ", "\n}\n", false, false},
	}
}

func shiftRefs(rs []gen.Ref, off int) []gen.Ref {
	out := make([]gen.Ref, len(rs))
	for i, r := range rs {
		r.Start += off
		r.End += off
		out[i] = r
	}
	return out
}

func c10Cases(tier string) []c10Case {
	depth := 2
	if tier == "thorough" {
		depth = 3
	}
	var out []c10Case
	add := func(cx c10Ctx, attr string, e gen.TExpr, admits bool) {
		text := cx.prefix + attr + " = " + e.Text + cx.suffix
		off := len(cx.prefix) + len(attr) + 3
		var exp []gen.Ref
		if admits && cx.known {
			for _, r := range shiftRefs(e.Refs, off) {
				if r.Self && !cx.self {
					continue
				}
				exp = append(exp, r)
			}
		}
		out = append(out, c10Case{text: text, exp: exp, desc: attr + ":" + e.Desc, context: cx.name})
	}
	for _, cx := range c10Contexts() {
		wide := cx.name == "root" || cx.name == "block-selfrefs"
		for tn := range c10Types {
			exprs := gen.TypedExprs(tn, depth, true)
			if !wide {
				exprs = gen.TypedExprs(tn, 1, true)
			}
			for _, e := range exprs {
				add(cx, "any_"+tn, e, true)
				add(cx, "dyn_"+tn, e, true)
				if tn == "list" {
					add(cx, "oneof_skip", e, true)
				}
				if wide {
					add(cx, "lit_"+tn, e, false)
				}
			}
		}
		strs := gen.TypedExprs("string", depth, true)
		if !wide {
			strs = gen.TypedExprs("string", 1, true)
		}
		for i, e := range strs {
			// Reference: only a whole-value traversal is a reference
			if e.Desc == "ref" {
				add(cx, "ref", e, true)
				add(cx, "oneof", e, true)
			} else {
				add(cx, "ref", e, false)
				add(cx, "oneof", e, true) // the AnyExpression member admits it
			}
			add(cx, "litval", e, false)
			add(cx, "kw", e, false)
			add(cx, "typedecl", e, false)
			e2 := strs[(i+1)%len(strs)]
			if strings.Contains(e.Text, "\n") || strings.Contains(e2.Text, "\n") {
				continue // heredocs cannot be written inside single-line collections
			}
			comp := func(name string, b gen.TExpr, admits bool) { add(cx, name, b, admits) }
			comp("list_any", gen.Compose("[", e, ", ", e2, "]"), true)
			comp("set_any", gen.Compose("[", e, "]"), true)
			comp("map_any", gen.Compose("{ k = ", e, ", \"q\" = ", e2, " }"), true)
			// object: foo admits anything, bar only a whole traversal, lit nothing, unknown key nothing
			objExp := gen.Compose("{ foo = ", e, ", lit = ", gen.Mute(e2), ", nokey = ", gen.Mute(e2), " }")
			comp("obj", objExp, true)
			if e.Desc == "ref" {
				comp("obj", gen.Compose("{ bar = ", e, " }"), true)
			} else {
				comp("obj", gen.Compose("{ bar = ", gen.Mute(e), " }"), true)
			}
			comp("tup", gen.Compose("[", e, ", ", gen.Mute(e2), "]"), true)
		}
	}
	// count / for_each extension attributes admit expressions
	for _, e := range gen.TypedExprs("number", 2, true) {
		cx := c10Contexts()[2]
		out = append(out, func() c10Case {
			text := cx.prefix + "count = " + e.Text + cx.suffix
			var exp []gen.Ref
			for _, r := range shiftRefs(e.Refs, len(cx.prefix)+8) {
				exp = append(exp, r)
			}
			return c10Case{text: text, exp: exp, desc: "count:" + e.Desc, context: "count-extension"}
		}())
	}
	for _, e := range gen.TypedExprs("map", 2, true) {
		cx := c10Contexts()[2]
		text := cx.prefix + "for_each = " + e.Text + cx.suffix
		out = append(out, c10Case{text: text, exp: shiftRefs(e.Refs, len(cx.prefix)+11), desc: "for_each:" + e.Desc, context: "for_each-extension"})
	}
	return out
}

func c10Check(cs c10Case, files []world.FileSpec, c *report.Collector, l *report.Local) {
	ent := gen.Entry{ID: "O:c10", Mk: c10Schema, Family: "struct", Hooks: -1}
	sp := explore.EntrySpec(&ent, files)
	w := world.Build(sp)
	if _, d := hclsyntax.ParseConfig([]byte(cs.text), "main.tf", hcl.InitialPos); d.HasErrors() {
		c.Add(&report.Violation{Clause: "harness:generated-file-does-not-parse", Site: cs.desc, Check: "c10", Detail: cs.text + "\n" + d.Error()})
		return
	}
	r := run.Call(w, run.Query{Kind: run.CollectOrigins})
	l.Count("calls", 1)
	if r.Panic != nil || r.Err != nil {
		return
	}
	origins := r.Val.(reference.Origins)
	type key struct {
		addr       string
		start, end int
	}
	got := map[key]int{}
	prevFile, prevStart := "", -1
	for _, o := range origins {
		rg := o.OriginRange()
		if rg.Filename < prevFile || (rg.Filename == prevFile && rg.Start.Byte < prevStart) {
			c.Add(&report.Violation{Clause: "origins:unsorted", Site: "collect_origins", Check: "c10", Detail: fmt.Sprintf("origins not ordered by file and position\nfile:\n%s", cs.text)})
		}
		prevFile, prevStart = rg.Filename, rg.Start.Byte
		lo, ok := o.(reference.LocalOrigin)
		if !ok || rg.Filename != "main.tf" {
			continue
		}
		got[key{lo.Addr.String(), rg.Start.Byte, rg.End.Byte}]++
	}
	want := map[key]int{}
	for _, e := range cs.exp {
		want[key{e.Addr, e.Start, e.End}]++
	}
	l.Count("comparisons", 1)
	l.Count("expected_origins", int64(len(cs.exp)))
	var missing, extra, dup []string
	for k, n := range want {
		if got[k] < n {
			missing = append(missing, fmt.Sprintf("%s@%d-%d", k.addr, k.start, k.end))
		}
	}
	for k, n := range got {
		if want[k] == 0 {
			extra = append(extra, fmt.Sprintf("%s@%d-%d", k.addr, k.start, k.end))
		} else if n > want[k] {
			dup = append(dup, fmt.Sprintf("%s@%d-%d x%d", k.addr, k.start, k.end, n))
		}
	}
	sort.Strings(missing)
	sort.Strings(extra)
	attr := cs.desc
	if i := strings.Index(attr, ":"); i >= 0 {
		attr = attr[:i]
	}
	form := cs.desc[strings.Index(cs.desc, ":")+1:]
	rep := func(clause string, items []string) {
		site := attr + ":" + form + "@" + cs.context
		if clause == "origins:missing" && allInsideUnknownCall(cs.text, items) {
			// one situation, wherever it is written
			site = "arguments-of-unknown-function"
		}
		c.Add(&report.Violation{Clause: clause, Site: site, Check: "c10", SchemaID: ent.ID, Files: []report.FileSpec{{Path: "/p0", Name: "main.tf", Text: cs.text}},
			Detail: fmt.Sprintf("attribute %s (%s) in context %s: %s %v; written references the constraint admits: %v\nfile:\n%s", attr, form, cs.context, clause, items, cs.exp, cs.text)})
	}
	if len(missing) > 0 {
		rep("origins:missing", missing)
	}
	if len(extra) > 0 {
		rep("origins:extra", extra)
	}
	if len(dup) > 0 {
		rep("origins:duplicate", dup)
	}
	if len(cs.exp) > 0 && len(missing)+len(extra)+len(dup) == 0 {
		l.Count("nontrivial", 1)
		l.Outcome(cs.desc + cs.context + fmt.Sprint(len(cs.exp)))
	}
}

// c10Soundness: on ALL sweep files every reported local origin's text re-parses to its address and
// no two origins share address and range; list ordered by file and position.
func c10Soundness(cx *explore.Ctx, q run.Query, r run.Result) {
	if r.Panic != nil || r.Err != nil {
		return
	}
	origins, ok := r.Val.(reference.Origins)
	if !ok {
		return
	}
	seen := map[string]bool{}
	prev := -1
	for _, o := range origins {
		rg := o.OriginRange()
		if rg.Filename != cx.Case.File {
			continue
		}
		cx.L.Count("origins_checked", 1)
		add := func(clause, detail string) {
			v := witness(cx, "sweep", q)
			v.Clause = clause
			v.Site = "collect_origins" + nodeClass(cx, q)
			v.Detail = detail + "\nfile:\n" + cx.Case.Text
			cx.C.Add(v)
		}
		if rg.Start.Byte < prev {
			add("origins:unsorted", "origins are not ordered by position")
		}
		prev = rg.Start.Byte
		lo, ok := o.(reference.LocalOrigin)
		if !ok {
			continue
		}
		if rg.Start.Byte < 0 || rg.End.Byte > len(cx.Src) || rg.Start.Byte > rg.End.Byte {
			continue // C02's business
		}
		k := fmt.Sprintf("%s@%d-%d", lo.Addr.String(), rg.Start.Byte, rg.End.Byte)
		if seen[k] {
			add("origins:duplicate", "two origins share address and range: "+k)
		}
		seen[k] = true
		txt := string(cx.Src[rg.Start.Byte:rg.End.Byte])
		tr, diags := hclsyntax.ParseTraversalAbs([]byte(txt), "x", hcl.InitialPos)
		if diags.HasErrors() {
			// legacy / partial traversals (e.g. splat sources) still denote their prefix: accept when the text starts with the address
			// half-typed traversals (unclosed index) are recovered by the parser: require the root name only
			root := lo.Addr.String()
			if len(lo.Addr) > 0 {
				root = lo.Addr[0].String()
			}
			if !strings.HasPrefix(strings.TrimSpace(txt), root) {
				add("origins:text-is-not-a-reference", fmt.Sprintf("origin %s covers text %q which is not that reference", k, txt))
			}
			continue
		}
		addr, err := lang.TraversalToAddress(tr)
		if err != nil || addr.String() != lo.Addr.String() {
			add("origins:address-differs-from-text", fmt.Sprintf("origin %s covers text %q which denotes %s", k, txt, addr.String()))
		}
	}
	if len(origins) > 0 {
		cx.L.Count("nontrivial", 1)
	}
}

// C10: reference origins are exactly the references written in schema-known values.
func C10(tier string) int {
	c := report.NewCollector("C10")
	deadline := explore.Deadline(tier)
	cases := c10Cases(tier)
	explore.ParallelEach(len(cases), c, deadline, func(i int, l *report.Local) {
		files := []world.FileSpec{{Name: "main.tf", Text: cases[i].text}}
		if i%5 == 0 {
			// multi-file path: ordering by file, origins of other files unaffected
			files = append(files, world.FileSpec{Name: "a_first.tf", Text: "any_string = other.file\n"}, world.FileSpec{Name: "z_last.tf", Text: "blk {\n  any_string = self.z\n}\n"})
		}
		c10Check(cases[i], files, c, l)
	})
	c.Count("generated_expressions", int64(len(cases)))
	if len(cases) > 100 {
		c.Sample(map[string]any{"file": cases[100].text, "expected_origins": cases[100].exp, "context": cases[100].context})
	}
	// soundness on every file of the product sweep
	explore.SweepGroups(explore.Groups(explore.CaseOpts{Tier: tier, Prefixes: true, Edits: tier == "thorough"}), c, deadline, explore.Opts{Kinds: []run.Kind{run.CollectOrigins}, OnResult: c10Soundness})
	return c.Finish(report.FinishOpts{
		Tier: tier, Level: "exploration", EvalCounter: "calls",
		Rule:         "E2: a typed expression generator (string/number/bool/list/map/object/tuple productions: templates, heredocs, directives, operators, conditionals, for expressions with iterators, index keys, parentheses, known/namespaced/variadic calls, nested to depth 2 (quick) / 3 (thorough); every traversal drawn fresh in 5 address forms + self.*) records the references it writes (address, exact byte range); each expression is placed under every reference-admitting constraint (AnyExpression of each type and dynamic, Reference, OneOf, List/Set/Map/Object/Tuple of those, count/for_each) and every non-admitting one (LiteralType, LiteralValue, Keyword, TypeDeclaration, literal-reserved object keys/tuple slots, unknown keys) in 8 body contexts (root, noise of unknown items, block with self refs, nested block, dynamic content, dependent body resolved/unresolved, unknown block), 1 or 3 files. Oracle: multiset of (address, range) of local origins == generator's list; ordered by file and position. Plus soundness on every file of the E1 sweep: origin text re-parses to its address, no duplicates, ordered.",
		Assumptions:  []string{"for-expression iterator variables are written traversals and are expected as origins (the repository's tests expect them too)", "object constraint: only values of schema-known keys; map/object keys only when parenthesised (statement silent, library's choice encoded)"},
		BiteCounters: []string{"comparisons", "expected_origins", "origins_checked"},
	})
}

// allInsideUnknownCall tells whether every item ("addr@start-end") lies between the parentheses of a
// call of the generator's unknown function.
func allInsideUnknownCall(text string, items []string) bool {
	var spans [][2]int
	for off := 0; ; {
		i := strings.Index(text[off:], "nosuchfn(")
		if i < 0 {
			break
		}
		start := off + i + len("nosuchfn(")
		depth, end := 1, start
		for end < len(text) && depth > 0 {
			switch text[end] {
			case '(':
				depth++
			case ')':
				depth--
			}
			end++
		}
		spans = append(spans, [2]int{start, end})
		off = start
	}
	if len(spans) == 0 || len(items) == 0 {
		return false
	}
	for _, it := range items {
		var a, b int
		at := strings.LastIndex(it, "@")
		if at < 0 {
			return false
		}
		if _, err := fmt.Sscanf(it[at+1:], "%d-%d", &a, &b); err != nil {
			return false
		}
		in := false
		for _, sp := range spans {
			if a >= sp[0] && b <= sp[1] {
				in = true
			}
		}
		if !in {
			return false
		}
	}
	return true
}
