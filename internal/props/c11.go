package props

import (
	"fmt"
	"sort"
	"strings"

	"github.com/hashicorp/hcl-lang/decoder"
	"github.com/hashicorp/hcl-lang/lang"
	"github.com/hashicorp/hcl-lang/reference"
	"github.com/hashicorp/hcl-lang/schema"
	"github.com/hashicorp/hcl/v2"
	"github.com/hashicorp/hcl/v2/hclsyntax"
	"github.com/zclconf/go-cty/cty"
	"github.com/zclconf/go-cty/cty/convert"

	"verif/internal/explore"
	"verif/internal/gen"
	"verif/internal/model"
	"verif/internal/report"
	"verif/internal/run"
	"verif/internal/world"
)

// ---- part 1: collected worlds: inverse, locality, path origins -----------------------------------

// c11Worlds: multi-path worlds linked by path origins / implied origins / direct origins, plus the
// catalogue's structure templates (count/each/self, dependent bodies, wide bodies).
func c11Worlds(tier string) []*world.Spec {
	var out []*world.Spec
	cat := gen.Catalogue(tier)
	for i := range cat {
		e := &cat[i]
		if e.Family != "struct" {
			continue
		}
		for si, s := range e.Seeds {
			if tier != "thorough" && si >= 3 {
				break
			}
			out = append(out, explore.EntrySpec(e, []world.FileSpec{{Name: "main.tf", Text: s}}))
		}
	}
	// a three-path world: root module calls /m1 and /m2
	modSchema := func() *schema.BodySchema {
		return &schema.BodySchema{
			Blocks: map[string]*schema.BlockSchema{
				"variable": {Labels: []*schema.LabelSchema{{Name: "name"}}, Body: &schema.BodySchema{Attributes: map[string]*schema.AttributeSchema{
					"type": {Constraint: schema.TypeDeclaration{}, IsOptional: true}, "default": {Constraint: schema.AnyExpression{OfType: cty.DynamicPseudoType}, IsOptional: true}}},
					Address: &schema.BlockAddrSchema{Steps: schema.Address{schema.StaticStep{Name: "var"}, schema.LabelStep{Index: 0}}, ScopeId: "sv", AsReference: true, AsTypeOf: &schema.BlockAsTypeOf{AttributeExpr: "type"}}},
				"output": {Labels: []*schema.LabelSchema{{Name: "name"}}, Body: &schema.BodySchema{Attributes: map[string]*schema.AttributeSchema{
					"value": {Constraint: schema.AnyExpression{OfType: cty.DynamicPseudoType}, IsOptional: true}}},
					Address: &schema.BlockAddrSchema{Steps: schema.Address{schema.StaticStep{Name: "output"}, schema.LabelStep{Index: 0}}, ScopeId: "so", AsReference: true}},
				"locals": {Body: &schema.BodySchema{AnyAttribute: &schema.AttributeSchema{Constraint: schema.AnyExpression{OfType: cty.DynamicPseudoType}, IsOptional: true,
					Address: &schema.AttributeAddrSchema{Steps: schema.Address{schema.StaticStep{Name: "local"}, schema.AttrNameStep{}}, ScopeId: "sl", AsReference: true, AsExprType: true}}}},
				"resource": {Labels: []*schema.LabelSchema{{Name: "type"}, {Name: "name"}},
					Body: &schema.BodySchema{Extensions: &schema.BodyExtensions{Count: true, ForEach: true, SelfRefs: true, DynamicBlocks: true},
						Attributes: map[string]*schema.AttributeSchema{"x": {Constraint: schema.AnyExpression{OfType: cty.String}, IsOptional: true}, "n": {Constraint: schema.AnyExpression{OfType: cty.Number}, IsOptional: true}},
						Blocks:     map[string]*schema.BlockSchema{"conn": {Body: &schema.BodySchema{Attributes: map[string]*schema.AttributeSchema{"host": {Constraint: schema.AnyExpression{OfType: cty.String}, IsOptional: true}}}}}},
					Address: &schema.BlockAddrSchema{Steps: schema.Address{schema.LabelStep{Index: 0}, schema.LabelStep{Index: 1}}, ScopeId: "sr", BodyAsData: true, InferBody: true, BodySelfRef: true, AsReference: true}},
				"module": {Labels: []*schema.LabelSchema{{Name: "name"}},
					Body: &schema.BodySchema{Attributes: map[string]*schema.AttributeSchema{"source": {Constraint: schema.LiteralType{Type: cty.String}, IsOptional: true, IsDepKey: true}}},
					DependentBody: map[schema.SchemaKey]*schema.BodySchema{
						depKey(nil, []schema.AttributeDependent{attrDep("source", cty.StringVal("./m1"))}): {
							Targets: &schema.Target{Path: lang.Path{Path: "/m1"}, Range: gen.SentinelRange},
							Attributes: map[string]*schema.AttributeSchema{"in": {Constraint: schema.AnyExpression{OfType: cty.String}, IsOptional: true,
								OriginForTarget: &schema.PathTarget{Address: schema.Address{schema.StaticStep{Name: "var"}, schema.AttrNameStep{}}, Path: lang.Path{Path: "/m1"}, Constraints: schema.Constraints{ScopeId: "sv", Type: cty.DynamicPseudoType}}}},
							TargetableAs: schema.Targetables{{Address: lang.Address{lang.RootStep{Name: "module"}, lang.AttrStep{Name: "one"}, lang.AttrStep{Name: "out"}}, ScopeId: "sm", AsType: cty.String}},
							ImpliedOrigins: schema.ImpliedOrigins{{OriginAddress: lang.Address{lang.RootStep{Name: "module"}, lang.AttrStep{Name: "one"}, lang.AttrStep{Name: "out"}},
								TargetAddress: lang.Address{lang.RootStep{Name: "output"}, lang.AttrStep{Name: "out"}}, Path: lang.Path{Path: "/m1"}, Constraints: schema.Constraints{ScopeId: "so"}}},
						},
					}},
			},
		}
	}
	out = append(out, &world.Spec{SchemaID: "X:modules", HookItems: -1, Paths: []world.PathSpec{
		{Path: "/root", Schema: modSchema, Funcs: gen.Functions, Files: []world.FileSpec{
			{Name: "main.tf", Text: "variable \"a\" {\n  type = string\n}\nlocals {\n  l1 = var.a\n  l2 = [local.l1, var.a]\n}\nmodule \"one\" {\n  source = \"./m1\"\n  in = local.l2[0]\n}\noutput \"o\" {\n  value = module.one.out\n}\n"},
			// a file that sorts before the one holding the module block mentions the module's output
			{Name: "a_early.tf", Text: "output \"early\" {\n  value = module.one.out\n}\n"},
			{Name: "res.tf", Text: "resource \"t\" \"a\" {\n  count = 2\n  x = \"${count.index}-${self.n}\"\n  n = count.index\n  conn {\n    host = self.x\n  }\n}\nresource \"t\" \"b\" {\n  for_each = { k = var.a }\n  x = each.value\n  n = t.a.n\n}\noutput \"p\" {\n  value = t.b.x\n}\n"},
		}},
		{Path: "/m1", Schema: modSchema, Funcs: gen.Functions, Files: []world.FileSpec{
			{Name: "m.tf", Text: "variable \"in\" {\n}\noutput \"out\" {\n  value = var.in\n}\nresource \"t\" \"a\" {\n  count = 1\n  n = count.index\n}\n"},
		}},
		{Path: "/m2", Schema: modSchema, Files: []world.FileSpec{{Name: "m.tf", Text: "variable \"in\" {\n}\noutput \"out\" {\n  value = var.in\n}\n"}}},
	}})
	// the target path of a path origin cannot be read (a module not loaded yet) while the calling path declares
	// something of the same address: the origin must not be resolved locally
	out = append(out, &world.Spec{SchemaID: "X:target-path-unreadable", HookItems: -1, Paths: []world.PathSpec{
		{Path: "/root", Schema: modSchema, Funcs: gen.Functions, Files: []world.FileSpec{
			{Name: "main.tf", Text: "module \"one\" {\n  source = \"./m1\"\n  in = \"eu\"\n}\noutput \"out\" {\n  value = module.one.out\n}\nvariable \"in\" {\n}\n"}}},
		{Path: "/m1", Schema: modSchema, Funcs: gen.Functions, Files: []world.FileSpec{{Name: "m.tf", Text: "variable \"in\" {\n}\noutput \"out\" {\n  value = var.in\n}\n"}}},
	}})
	// a path whose path origins point into the path itself (a module that calls itself), next to an ordinary caller
	out = append(out, &world.Spec{SchemaID: "X:self-targeting-path", HookItems: -1, Paths: []world.PathSpec{
		{Path: "/root", Schema: modSchema, Funcs: gen.Functions, Files: []world.FileSpec{
			{Name: "main.tf", Text: "module \"one\" {\n  source = \"./m1\"\n  in = \"eu\"\n}\noutput \"o\" {\n  value = module.one.out\n}\n"}}},
		{Path: "/m1", Schema: modSchema, Funcs: gen.Functions, Files: []world.FileSpec{
			{Name: "m.tf", Text: "variable \"in\" {\n}\noutput \"out\" {\n  value = var.in\n}\nmodule \"one\" {\n  source = \"./m1\"\n  in = \"again\"\n}\noutput \"o2\" {\n  value = module.one.out\n}\n"}}},
	}})
	// implied origins declared by the ROOT body schema, in a path of two files
	rootImplied := func() *schema.BodySchema {
		return &schema.BodySchema{
			ImpliedOrigins: schema.ImpliedOrigins{{OriginAddress: lang.Address{lang.RootStep{Name: "module"}, lang.AttrStep{Name: "a"}},
				TargetAddress: lang.Address{lang.RootStep{Name: "output"}, lang.AttrStep{Name: "out"}}, Path: lang.Path{Path: "/m1"}, Constraints: schema.Constraints{ScopeId: "so"}}},
			Attributes: map[string]*schema.AttributeSchema{"ref": {Constraint: schema.Reference{OfScopeId: "sm"}, IsOptional: true}, "other": {Constraint: schema.LiteralType{Type: cty.Number}, IsOptional: true}},
		}
	}
	out = append(out, &world.Spec{SchemaID: "X:root-implied-two-files", HookItems: -1, Paths: []world.PathSpec{
		{Path: "/root", Schema: rootImplied, Files: []world.FileSpec{{Name: "a.tf", Text: "ref = module.a\n"}, {Name: "b.tf", Text: "other = 1\n"}}},
		{Path: "/m1", Schema: modSchema, Funcs: gen.Functions, Files: []world.FileSpec{{Name: "m.tf", Text: "variable \"in\" {\n}\noutput \"out\" {\n  value = var.in\n}\n"}}},
	}})
	// two caller paths that are textual copies of each other (same file names, same ranges), both pointing into /m1
	out = append(out, &world.Spec{SchemaID: "X:copied-callers", HookItems: -1, Paths: []world.PathSpec{
		{Path: "/envs/dev", Schema: modSchema, Funcs: gen.Functions, Files: []world.FileSpec{{Name: "main.tf", Text: "module \"one\" {\n  source = \"./m1\"\n  in = \"eu\"\n}\noutput \"o\" {\n  value = module.one.out\n}\n"}}},
		{Path: "/envs/prod", Schema: modSchema, Funcs: gen.Functions, Files: []world.FileSpec{{Name: "main.tf", Text: "module \"one\" {\n  source = \"./m1\"\n  in = \"eu\"\n}\noutput \"o\" {\n  value = module.one.out\n}\n"}}},
		{Path: "/m1", Schema: modSchema, Funcs: gen.Functions, Files: []world.FileSpec{{Name: "main.tf", Text: "variable \"in\" {\n}\noutput \"out\" {\n  value = var.in\n}\n"}}},
	}})
	// two paths sharing one directory and differing only in language id (a module and its variable files),
	// in both listing orders
	tfP := lang.Path{Path: "/mod", LanguageID: "terraform"}
	tfSchema := func() *schema.BodySchema {
		return &schema.BodySchema{Blocks: map[string]*schema.BlockSchema{
			"variable": {Labels: []*schema.LabelSchema{{Name: "name"}}, Body: &schema.BodySchema{Attributes: map[string]*schema.AttributeSchema{
				"default": {Constraint: schema.AnyExpression{OfType: cty.DynamicPseudoType}, IsOptional: true}}},
				Address: &schema.BlockAddrSchema{Steps: schema.Address{schema.StaticStep{Name: "var"}, schema.LabelStep{Index: 0}}, ScopeId: "sv", AsReference: true}},
			"output": {Labels: []*schema.LabelSchema{{Name: "name"}}, Body: &schema.BodySchema{Attributes: map[string]*schema.AttributeSchema{
				"value": {Constraint: schema.AnyExpression{OfType: cty.DynamicPseudoType}, IsOptional: true}}}},
		}}
	}
	varsSchema := func() *schema.BodySchema {
		return &schema.BodySchema{AnyAttribute: &schema.AttributeSchema{Constraint: schema.AnyExpression{OfType: cty.DynamicPseudoType}, IsOptional: true,
			OriginForTarget: &schema.PathTarget{Address: schema.Address{schema.StaticStep{Name: "var"}, schema.AttrNameStep{}}, Path: tfP, Constraints: schema.Constraints{ScopeId: "sv"}}}}
	}
	tfFiles := []world.FileSpec{{Name: "main.tf", Text: "variable \"region\" {\n}\nvariable \"zone\" {\n}\noutput \"r\" {\n  value = [var.region, var.zone]\n}\n"}}
	varsFiles := []world.FileSpec{{Name: "a.tfvars", Text: "region = \"us\"\nzone = \"a\"\nother = 1\n"}}
	modP := world.PathSpec{Path: "/mod", LangID: "terraform", Schema: tfSchema, Files: tfFiles}
	varsP := world.PathSpec{Path: "/mod", LangID: "terraform-vars", Schema: varsSchema, Files: varsFiles}
	out = append(out, &world.Spec{SchemaID: "X:langids-mod-first", HookItems: -1, Paths: []world.PathSpec{modP, varsP}})
	out = append(out, &world.Spec{SchemaID: "X:langids-vars-first", HookItems: -1, Paths: []world.PathSpec{varsP, modP}})
	return out
}

func specFiles(sp *world.Spec) []report.FileSpec {
	var files []report.FileSpec
	for _, ps := range sp.Paths {
		for _, f := range ps.Files {
			files = append(files, report.FileSpec{Path: ps.Path, Name: f.Name, Text: f.Text})
		}
	}
	return files
}

func pathIndex(w *world.World, p lang.Path) int {
	for i, x := range w.Paths {
		if x == p {
			return i
		}
	}
	return -1
}

// c11Converse: every origin find-references reports at a declaration's definition must itself
// resolve (go-to-definition) to a declaration whose definition holds that position.
func c11Converse(sp *world.Spec, w *world.World, c *report.Collector, l *report.Local) {
	for pi := range w.Paths {
		ctx := w.Ctx(pi)
		if ctx == nil {
			continue
		}
		var defs []hcl.Range
		extents := map[string][]hcl.Range{} // definition -> extents of the declarations defined there
		var rec func(ts reference.Targets)
		rec = func(ts reference.Targets) {
			for _, t := range ts {
				if t.DefRangePtr != nil {
					defs = append(defs, *t.DefRangePtr)
					if t.RangePtr != nil {
						extents[fmtRange(*t.DefRangePtr)] = append(extents[fmtRange(*t.DefRangePtr)], *t.RangePtr)
					}
				}
				rec(t.NestedTargets)
			}
		}
		rec(ctx.ReferenceTargets)
		seen := map[string]bool{}
		for _, d := range defs {
			k := fmtRange(d)
			if seen[k] {
				continue
			}
			seen[k] = true
			text, ok := w.Texts[world.PK(w.Paths[pi])][d.Filename]
			if !ok || d.Start.Byte >= d.End.Byte || d.End.Byte > len(text) {
				continue
			}
			src := []byte(text)
			pos := run.PosAt(src, d.Start.Byte)
			fr := run.Call(w, run.Query{Kind: run.FindRefs, Path: pi, File: d.Filename, Pos: pos})
			l.Count("calls", 1)
			os, _ := fr.Val.(decoder.ReferenceOrigins)
			for _, ro := range os {
				opi := pathIndex(w, ro.Path)
				if opi < 0 {
					continue
				}
				otext, ok := w.Texts[world.PK(ro.Path)][ro.Range.Filename]
				if !ok {
					continue
				}
				gr := run.Call(w, run.Query{Kind: run.GotoDef, Path: opi, File: ro.Range.Filename, Pos: run.PosAt([]byte(otext), ro.Range.Start.Byte)})
				l.Count("calls", 1)
				l.Count("converse_checks", 1)
				// the reported origin is an origin of the path it is attributed to
				exists := false
				if octx := w.Ctx(opi); octx != nil {
					for _, oo := range octx.ReferenceOrigins {
						if oo.OriginRange() == ro.Range {
							exists = true
							break
						}
					}
				}
				if !exists {
					c.Add(&report.Violation{Clause: "inverse:find-references-reports-origin-its-path-does-not-hold", Site: "find_refs", Check: "c11", SchemaID: sp.SchemaID, Files: specFiles(sp),
						Detail: fmt.Sprintf("find-references at the definition %s (path %v) reports an origin %s attributed to path %v, which holds no origin with that range", fmtRange(d), w.Paths[pi], fmtRange(ro.Range), ro.Path)})
					continue
				}
				found := false
				if ts, ok := gr.Val.(decoder.ReferenceTargets); ok {
					for _, t := range ts {
						if t == nil || t.Path != w.Paths[pi] {
							continue
						}
						// find-references over-approximates by design inside one path (at a position not
						// covered by a nested declaration it answers for the whole enclosing block); what
						// the statement forbids is resolution across paths: the reported origin must
						// resolve to some declaration of THIS path
						_ = extents
						found = true
					}
				}
				if !found {
					var files []report.FileSpec
					for _, ps := range sp.Paths {
						for _, f := range ps.Files {
							files = append(files, report.FileSpec{Path: ps.Path, Name: f.Name, Text: f.Text})
						}
					}
					c.Add(&report.Violation{Clause: "inverse:find-references-reports-origin-of-other-path", Site: "find_refs", Check: "c11", SchemaID: sp.SchemaID, Files: files,
						Detail: fmt.Sprintf("find-references at the definition %s (path %s) reports the origin %s in path %s, but go-to-definition from that origin never resolves in this path", fmtRange(d), w.Paths[pi].Path, fmtRange(ro.Range), ro.Path.Path)})
				}
			}
		}
	}
}

func c11World(sp *world.Spec, c *report.Collector, l *report.Local) {
	w := world.Build(sp)
	l.Count("worlds", 1)
	if sp.SchemaID == "X:target-path-unreadable" {
		// collected while readable, queried while not
		w.Reader.Fail[world.PK(lang.Path{Path: "/m1"})] = true
	}
	c11Converse(sp, w, c, l)
	c11Implied(sp, w, c, l)
	for pi := range w.Paths {
		ctx := w.Ctx(pi)
		if ctx == nil {
			continue
		}
		for _, o := range ctx.ReferenceOrigins {
			or := o.OriginRange()
			text, ok := w.Texts[world.PK(w.Paths[pi])][or.Filename]
			if !ok || or.Start.Byte < 0 || or.End.Byte > len(text) || or.Start.Byte >= or.End.Byte {
				continue
			}
			src := []byte(text)
			local, isLocal := o.(reference.LocalOrigin)
			for b := or.Start.Byte; b < or.End.Byte; b++ {
				if !run.RuneBoundary(src, b) {
					continue
				}
				q := run.Query{Kind: run.GotoDef, Path: pi, File: or.Filename, Pos: run.PosAt(src, b)}
				r := run.Call(w, q)
				l.Count("calls", 1)
				if r.Panic != nil || r.Err != nil {
					continue
				}
				ts, _ := r.Val.(decoder.ReferenceTargets)
				for _, t := range ts {
					if t == nil || t.OriginRange != or {
						continue // another origin at the same position
					}
					l.Count("resolutions", 1)
					bad := func(clause, site, detail string) {
						var files []report.FileSpec
						for _, ps := range sp.Paths {
							for _, f := range ps.Files {
								files = append(files, report.FileSpec{Path: ps.Path, Name: f.Name, Text: f.Text})
							}
						}
						c.Add(&report.Violation{Clause: clause, Site: site, Check: "c11", SchemaID: sp.SchemaID, Files: files, Query: report.J(q), Detail: detail})
					}
					// (c) origins that point into another path resolve against that path, local ones in their own.
					// Several origins may share one range (an implied path origin sits on its local origin):
					// the reported path must be the target path of one of them.
					allowed := map[string]bool{}
					for _, o2 := range ctx.ReferenceOrigins {
						if o2.OriginRange() != or {
							continue
						}
						switch x := o2.(type) {
						case reference.LocalOrigin:
							allowed[world.PK(w.Paths[pi])] = true
						case reference.PathOrigin:
							allowed[world.PK(x.TargetPath)] = true
						case reference.DirectOrigin:
							allowed[world.PK(x.TargetPath)] = true
						}
					}
					if !allowed[world.PK(t.Path)] {
						bad("origin:resolved-in-wrong-path", "goto_def", fmt.Sprintf("origin(s) at %s may resolve in paths %v but a declaration in %s is reported", fmtRange(or), allowed, t.Path.Path))
					}
					// (b) block-local names resolve only to the enclosing block's declaration
					if isLocal && len(local.Addr) > 0 {
						root := local.Addr[0].String()
						if root == "count" || root == "each" || root == "self" {
							l.Count("local_name_resolutions", 1)
							// the declaring block encloses both the declaration and the origin
							if t.Range.Filename != or.Filename {
								bad("local-name:resolved-across-files", root, fmt.Sprintf("%s at %s resolved to %s", local.Addr.String(), fmtRange(or), fmtRange(t.Range)))
							} else if blk := enclosingTopBlock(w, pi, or); blk != nil {
								if t.Range.Start.Byte < blk.Start.Byte || t.Range.End.Byte > blk.End.Byte {
									bad("local-name:resolved-across-blocks", root, fmt.Sprintf("%s at %s (inside block %s) resolved to the declaration at %s of another block", local.Addr.String(), fmtRange(or), fmtRange(*blk), fmtRange(t.Range)))
								}
							}
						}
					}
					// (a) inverse: find-references at the definition reports this origin
					if t.DefRangePtr == nil {
						continue
					}
					tpi := pathIndex(w, t.Path)
					if tpi < 0 {
						continue
					}
					dtext, ok := w.Texts[world.PK(t.Path)][t.DefRangePtr.Filename]
					if !ok {
						continue
					}
					dsrc := []byte(dtext)
					// one probe per origin position would be quadratic: the definition is probed at every
					// byte only for the first byte of the origin, at its first byte otherwise
					from, to := t.DefRangePtr.Start.Byte, t.DefRangePtr.End.Byte
					if b != or.Start.Byte {
						to = from + 1
					}
					for db := from; db < to && db < len(dsrc); db++ {
						if !run.RuneBoundary(dsrc, db) {
							continue
						}
						fq := run.Query{Kind: run.FindRefs, Path: tpi, File: t.DefRangePtr.Filename, Pos: run.PosAt(dsrc, db)}
						fr := run.Call(w, fq)
						l.Count("calls", 1)
						l.Count("inverse_checks", 1)
						os, _ := fr.Val.(decoder.ReferenceOrigins)
						found := false
						for _, ro := range os {
							if ro.Path == w.Paths[pi] && ro.Range == or {
								found = true
							}
						}
						if !found {
							kind := "local"
							if _, ok := o.(reference.PathOrigin); ok {
								kind = "path"
							}
							bad("inverse:find-references-misses-origin", kind+"-origin", fmt.Sprintf("go-to-definition from the origin at %s %s (path %s) reports the declaration %s (path %s), but find-references at its definition %s byte %d does not report that origin (got %v)",
								or.Filename, fmtRange(or), w.Paths[pi].Path, fmtRange(t.Range), t.Path.Path, fmtRange(*t.DefRangePtr), db, os))
							break
						}
					}
				}
				if len(ts) > 0 {
					l.Count("nontrivial", 1)
					l.Outcome(run.Canon(ts))
				}
			}
		}
	}
}

// enclosingTopBlock returns the range of the outermost block of the file that contains r.
func enclosingTopBlock(w *world.World, pi int, r hcl.Range) *hcl.Range {
	f := w.Ctx(pi).Files[r.Filename]
	if f == nil {
		return nil
	}
	body, ok := f.Body.(*hclsyntax.Body)
	if !ok {
		return nil
	}
	for _, b := range body.Blocks {
		br := b.Range()
		if br.Start.Byte <= r.Start.Byte && r.End.Byte <= br.End.Byte {
			return &br
		}
	}
	return nil
}

// ---- part 2: synthetic universe against an independent matcher ------------------------------------

type synTarget struct {
	t    reference.Target
	desc string
}

func synRange(file string, start, end int) *hcl.Range {
	return &hcl.Range{Filename: file, Start: hcl.Pos{Line: 1, Column: start + 1, Byte: start}, End: hcl.Pos{Line: 1, Column: end + 1, Byte: end}}
}

func addrOf(parts ...string) lang.Address {
	a := lang.Address{}
	for i, p := range parts {
		if i == 0 {
			a = append(a, lang.RootStep{Name: p})
		} else {
			a = append(a, lang.AttrStep{Name: p})
		}
	}
	return a
}

// modelMatch: does origin (addr, constraints, range) resolve to target t? Written from the
// statement; the choices the statement leaves open are marked.
func modelMatch(t reference.Target, addr lang.Address, cons reference.OriginConstraints, orng hcl.Range) bool {
	okCons := false
	dyn := false
	if len(cons) == 0 {
		// statement silent: an unconstrained reference resolves to typed declarations only
		okCons = t.Type != cty.NilType
	}
	for _, c := range cons {
		if c.OfScopeId != "" && c.OfScopeId != t.ScopeId {
			continue
		}
		switch {
		case t.Type == cty.DynamicPseudoType:
			okCons, dyn = true, true
		case c.OfType == cty.NilType && t.Type == cty.NilType:
			okCons = true
		case c.OfType != cty.NilType && t.Type != cty.NilType:
			if c.OfType.IsTupleType() && c.OfType.Length() == 0 && t.Type.IsTupleType() {
				okCons = true
			} else if _, err := convert.Convert(cty.UnknownVal(t.Type), c.OfType); err == nil {
				okCons = true
			}
		}
	}
	if !okCons {
		return false
	}
	eq := func(ta lang.Address) bool {
		if len(ta) == 0 {
			return false
		}
		a := addr
		if dyn && len(ta) < len(addr) {
			a = addr[:len(ta)] // a dynamic-typed declaration also answers for anything below it
		}
		return ta.String() == a.String() && len(ta) == len(a)
	}
	if eq(t.Addr) {
		return true
	}
	if eq(t.LocalAddr) {
		if t.TargetableFromRangePtr == nil {
			return true
		}
		tf := *t.TargetableFromRangePtr
		return tf.Filename == orng.Filename && tf.Start.Byte <= orng.End.Byte && orng.Start.Byte <= tf.End.Byte && !(tf.Empty() && orng.Empty())
	}
	return false
}

func c11Synthetic(c *report.Collector, tier string) {
	l := report.NewLocal()
	defer c.Merge(l)
	types := []cty.Type{cty.NilType, cty.String, cty.Number, cty.DynamicPseudoType, cty.Object(map[string]cty.Type{"a": cty.String})}
	scopes := []lang.ScopeId{"", "sa", "sb"}
	// targets: each at its own place in file t.tf (ranges 10*i..10*i+8, definition = first 3 bytes)
	var targets []synTarget
	addrs := []lang.Address{addrOf("r"), addrOf("r", "x"), addrOf("q", "x"), addrOf("r", "x", "y")}
	i := 0
	mk := func(addr, local lang.Address, ty cty.Type, sc lang.ScopeId, from *hcl.Range, nested reference.Targets, desc string) {
		i++
		targets = append(targets, synTarget{reference.Target{Addr: addr, LocalAddr: local, Type: ty, ScopeId: sc, RangePtr: synRange("t.tf", 20*i, 20*i+15), DefRangePtr: synRange("t.tf", 20*i, 20*i+3),
			TargetableFromRangePtr: from, NestedTargets: nested}, desc})
	}
	for _, a := range addrs {
		for _, ty := range types {
			for _, sc := range scopes {
				mk(a, nil, ty, sc, nil, nil, "abs")
			}
		}
	}
	inside, outside := synRange("o.tf", 0, 1900), synRange("o.tf", 1950, 1990)
	for _, ty := range []cty.Type{cty.String, cty.DynamicPseudoType} {
		mk(nil, addrOf("self", "x"), ty, "", inside, nil, "local-inside")
		mk(nil, addrOf("self", "x"), ty, "", outside, nil, "local-outside")
		mk(addrOf("r", "x"), addrOf("self", "x"), ty, "sa", inside, nil, "both")
		mk(nil, addrOf("count", "index"), ty, "", nil, nil, "local-unbounded")
		// an absolute address longer than the local one (two-label block: aws.foo.settings vs self.settings)
		mk(addrOf("w", "a", "x"), addrOf("self", "s"), ty, "", inside, nil, "both-absolute-longer")
	}
	// nested
	mk(addrOf("n"), nil, cty.Object(map[string]cty.Type{"x": cty.String}), "sa", nil, reference.Targets{
		{Addr: addrOf("n", "x"), Type: cty.String, ScopeId: "sa", RangePtr: synRange("t.tf", 5000, 5008), DefRangePtr: synRange("t.tf", 5000, 5002),
			NestedTargets: reference.Targets{{Addr: addrOf("n", "x", "y"), Type: cty.Number, RangePtr: synRange("t.tf", 5003, 5006)}}},
	}, "nested")
	// origins: address x constraint sets, each at its own place in o.tf
	var origins []reference.LocalOrigin
	oaddrs := []lang.Address{addrOf("r"), addrOf("r", "x"), addrOf("q", "x"), addrOf("r", "x", "y"), addrOf("r", "x", "y", "z"), addrOf("self", "x"), addrOf("count", "index"), addrOf("n", "x"), addrOf("n", "x", "y"), addrOf("zz"),
		addrOf("self", "s"), addrOf("self", "s", "name"), addrOf("self", "s", "name", "first"), addrOf("w", "a", "x"), addrOf("w", "a", "x", "name"), addrOf("w", "a", "x", "name", "first")}
	consSets := []reference.OriginConstraints{nil, {{}}, {{OfType: cty.String}}, {{OfType: cty.Number}}, {{OfType: cty.DynamicPseudoType}}, {{OfScopeId: "sa"}}, {{OfScopeId: "sb", OfType: cty.String}},
		{{OfScopeId: "sa"}, {OfType: cty.Number}}, {{OfType: cty.EmptyTuple}}}
	j := 0
	for _, a := range oaddrs {
		for _, cs := range consSets {
			j++
			origins = append(origins, reference.LocalOrigin{Addr: a, Constraints: cs, Range: *synRange("o.tf", 8*j, 8*j+6)})
		}
	}
	// one world holding everything; files only need to exist by name
	var tl reference.Targets
	for _, st := range targets {
		tl = append(tl, st.t)
	}
	var ol reference.Origins
	for _, o := range origins {
		ol = append(ol, o)
	}
	sp := &world.Spec{SchemaID: "SYN", HookItems: -1, Paths: []world.PathSpec{{Path: "/syn", NoCollect: true, Schema: func() *schema.BodySchema { return &schema.BodySchema{} },
		Files: []world.FileSpec{{Name: "o.tf", Text: strings.Repeat(" ", 2000)}, {Name: "t.tf", Text: strings.Repeat(" ", 6000)}}}}}
	w := world.Build(sp)
	w.Ctx(0).ReferenceTargets = tl
	w.Ctx(0).ReferenceOrigins = ol
	flat := func() []reference.Target {
		var out []reference.Target
		var rec func(ts reference.Targets)
		rec = func(ts reference.Targets) {
			for _, t := range ts {
				out = append(out, t)
				rec(t.NestedTargets)
			}
		}
		rec(tl)
		return out
	}()
	for _, o := range origins {
		q := run.Query{Kind: run.GotoDef, Path: 0, File: "o.tf", Pos: o.Range.Start}
		r := run.Call(w, q)
		l.Count("calls", 1)
		l.Count("synthetic_origins", 1)
		got := map[string]int{}
		if ts, ok := r.Val.(decoder.ReferenceTargets); ok {
			for _, t := range ts {
				got[fmtRange(t.Range)]++
			}
		}
		want := map[string]bool{}
		for _, t := range flat {
			l.Count("synthetic_pairs", 1)
			if t.RangePtr != nil && modelMatch(t, o.Addr, o.Constraints, o.Range) {
				want[fmtRange(*t.RangePtr)] = true
			}
		}
		var missing, extra []string
		for k := range want {
			if got[k] == 0 {
				missing = append(missing, k)
			}
		}
		for k := range got {
			if !want[k] {
				extra = append(extra, k)
			}
		}
		sort.Strings(missing)
		sort.Strings(extra)
		if len(missing)+len(extra) > 0 {
			clause := "resolution:extra-declarations"
			if len(missing) > 0 {
				clause = "resolution:missing-declarations"
			}
			c.Add(&report.Violation{Clause: clause, Site: "synthetic", Check: "c11-syn",
				Detail: fmt.Sprintf("origin %s constraints %v: resolves to %v; by address/scope/type it denotes %v (missing %v, extra %v)", o.Addr.String(), o.Constraints, keysOf(got), keysOfB(want), missing, extra)})
		} else if len(want) > 0 {
			l.Count("nontrivial", 1)
			l.Outcome(fmt.Sprint(o.Addr.String(), o.Constraints, keysOfB(want)))
		}
	}
	c.Sample(map[string]any{"synthetic_origin": "r.x with constraints [{scope sa}, {type number}]", "universe": fmt.Sprintf("%d declarations (addresses over 2 roots x <=3 steps, 5 types, 3 scopes, local/absolute/both, targetable-from inside/outside, nested) x %d origins", len(flat), len(origins))})
}

func keysOf(m map[string]int) []string {
	var out []string
	for k := range m {
		out = append(out, k)
	}
	sort.Strings(out)
	return out
}
func keysOfB(m map[string]bool) []string {
	var out []string
	for k := range m {
		out = append(out, k)
	}
	sort.Strings(out)
	return out
}

// C11: go-to-definition and find-references are inverse views of one resolution.
func C11(tier string) int {
	c := report.NewCollector("C11")
	specs := c11Worlds(tier)
	explore.ParallelEach(len(specs), c, explore.Deadline(tier), func(i int, l *report.Local) {
		c11World(specs[i], c, l)
	})
	c11Synthetic(c, tier)
	return c.Finish(report.FinishOpts{
		Tier: tier, Level: "exploration", EvalCounter: "calls",
		Rule:         "(1) collected worlds (every structure template + a three-path module world linked by path origins, implied origins and direct origins; count/each/self; dependent bodies): for EVERY collected origin and EVERY byte position inside it, go-to-definition; for every reported declaration with a definition range, find-references at every byte of that definition must report the origin (within and across paths); block-local names (count.*, each.*, self.*) resolve only to declarations inside the outermost block holding the origin; path origins resolve in their target path only, local origins in their own. (2) synthetic universe put directly into the path context: declarations over 2 roots x <=3 steps x 5 types x 3 scopes, local/absolute/both, targetable-from inside/outside, nested; origins over 10 addresses x 9 constraint sets: the set of declarations go-to-definition reports == an independent matcher written from the statement (address equality, dynamic-type prefix rule, scope, type convertibility, targetable-from overlap). non-trivial = at least one resolution",
		Assumptions:  []string{"an origin without constraints resolves to typed declarations only (statement silent: library's choice encoded)", "inverse is probed at every definition byte for the first origin byte and at the first definition byte for the other origin bytes"},
		BiteCounters: []string{"resolutions", "inverse_checks", "synthetic_pairs", "local_name_resolutions"},
	})
}

// c11Implied: a body in force that implies origins (module.one.out stands for output.out of /m1) gives every written
// reference with that address, in whichever file of the path it stands, exactly one path origin per implying block.
func c11Implied(sp *world.Spec, w *world.World, c *report.Collector, l *report.Local) {
	for pi := range w.Paths {
		ctx := w.Ctx(pi)
		if ctx == nil || ctx.Schema == nil {
			continue
		}
		var implied []schema.ImpliedOrigin
		implied = append(implied, ctx.Schema.ImpliedOrigins...)
		for _, f := range ctx.Files {
			body, ok := f.Body.(*hclsyntax.Body)
			if !ok {
				continue
			}
			for _, b := range body.Blocks {
				bs, ok := ctx.Schema.Blocks[b.Type]
				if !ok {
					continue
				}
				if bs.Body != nil {
					implied = append(implied, bs.Body.ImpliedOrigins...)
				}
				if e := model.Effective(bs, b); e.Dep != nil && (e.Sel == model.Resolved || e.Sel == model.Partial) {
					implied = append(implied, e.Dep.ImpliedOrigins...)
				}
			}
		}
		for _, io := range implied {
			for _, o := range ctx.ReferenceOrigins {
				lo, ok := o.(reference.LocalOrigin)
				if !ok || !lo.Addr.Equals(io.OriginAddress) {
					continue
				}
				l.Count("implied_origin_checks", 1)
				n := 0
				for _, o2 := range ctx.ReferenceOrigins {
					if po, ok := o2.(reference.PathOrigin); ok && po.Range == lo.Range && po.TargetAddr.Equals(io.TargetAddress) && po.TargetPath.Equals(io.Path) {
						n++
					}
				}
				want := 0
				for _, io2 := range implied {
					if io2.OriginAddress.Equals(io.OriginAddress) && io2.TargetAddress.Equals(io.TargetAddress) && io2.Path.Equals(io.Path) {
						want++
					}
				}
				if n != want {
					clause := "implied:path-origin-missing"
					if n > want {
						clause = "implied:path-origin-duplicated"
					}
					c.Add(&report.Violation{Clause: clause, Site: "implied-origin", Check: "c11", SchemaID: sp.SchemaID, Files: specFiles(sp),
						Detail: fmt.Sprintf("path %s: the reference %s at %s stands for %s in %s (implied by %d block(s)) but has %d path origins of that kind", w.Paths[pi].Path, lo.Addr, fmtRange(lo.Range), io.TargetAddress, io.Path.Path, want, n)})
				}
			}
		}
	}
}
