package props

import (
	"fmt"
	"strconv"
	"strings"

	"github.com/hashicorp/hcl-lang/lang"
	"github.com/hashicorp/hcl-lang/schema"
	"github.com/hashicorp/hcl/v2"
	"github.com/hashicorp/hcl/v2/ext/typeexpr"
	"github.com/hashicorp/hcl/v2/hclsyntax"
	"github.com/zclconf/go-cty/cty"

	"verif/internal/explore"
	"verif/internal/model"
	"verif/internal/run"
)

// c12Exact: on files that parse cleanly, hover on attribute names, block types and labels names the
// element, carries the description of the effective schema and has the element as range; inside a
// value the range stays inside the value.
func c12Exact(cx *explore.Ctx, q run.Query, r run.Result, body *hclsyntax.Body) {
	hd, _ := r.Val.(*lang.HoverData)
	pos := q.Pos
	bc := model.BodyAt(cx.Case.Entry.Mk(), body, pos)
	if bc.Eff == nil {
		return
	}
	add := func(clause, site, detail string) {
		v := witness(cx, "sweep", q)
		v.Clause = clause
		v.Site = site
		v.Detail = fmt.Sprintf("%s: %s\nfile:\n%s", q, detail, cx.Case.Text)
		cx.C.Add(v)
	}
	in := func(r hcl.Range) bool { return r.Start.Byte <= pos.Byte && pos.Byte < r.End.Byte }
	expect := func(site string, rng hcl.Range, must []string) {
		cx.L.Count("exact_hovers", 1)
		if hd == nil {
			add("hover:missing", site, fmt.Sprintf("nothing returned on a schema-known %s (expected range %s)", site, fmtRange(rng)))
			return
		}
		if hd.Range != rng {
			add("hover:range", site, fmt.Sprintf("range %s, expected the %s's %s", fmtRange(hd.Range), site, fmtRange(rng)))
		}
		for _, m := range must {
			// (a label value is shown quoted: characters Go's %q escapes, e.g. a no-break space, appear escaped)
			if m != "" && !strings.Contains(hd.Content.Value, m) && !strings.Contains(hd.Content.Value, strings.Trim(strconv.Quote(m), `"`)) {
				add("hover:content", site, fmt.Sprintf("content %q does not carry %q", hd.Content.Value, m))
			}
		}
	}
	for name, a := range bc.Body.Attributes {
		if in(a.NameRange) {
			if !bc.Eff.AttrKnown(name) {
				if hd != nil && !bc.Unknown {
					add("hover:unknown-element-described", "attribute-name", fmt.Sprintf("attribute %q is unknown to the effective schema but hover returned %q", name, hd.Content.Value))
				}
				return
			}
			desc := ""
			if (name == "count" && bc.Eff.Ext.Count) || (name == "for_each" && bc.Eff.Ext.ForEach) {
				// extension attributes: their description is the library's own text; an
				// enabled extension precedes a declared attribute of the same name in every
				// feature (hover, tokens, origins, targets, candidates)
				desc = ""
				if as, ok := bc.Eff.Attributes[name]; ok && as.Description.Value != "" && hd != nil && strings.Contains(hd.Content.Value, as.Description.Value) {
					add("hover:content-of-shadowed-attribute", "attribute-name", fmt.Sprintf("the %s extension is enabled here and precedes the declared attribute of that name, yet hover carries the declared attribute's description %q", name, as.Description.Value))
				}
			} else if as, ok := bc.Eff.Attributes[name]; ok {
				desc = as.Description.Value
			} else if bc.Eff.Any != nil {
				desc = bc.Eff.Any.Description.Value
			}
			expect("attribute-name", a.SrcRange, []string{name, desc})
			return
		}
		if a.Expr.Range().Start.Byte <= pos.Byte && pos.Byte < a.Expr.Range().End.Byte {
			if hd != nil && bc.Eff.AttrKnown(name) {
				if as, ok := bc.Eff.Attributes[name]; ok {
					c12ObjectKeys(cx, q, hd, a, as.Constraint)
					c12TypeDecl(cx, q, hd, a, as.Constraint)
				}
				er := a.Expr.Range()
				if hd.Range.Start.Byte < er.Start.Byte || hd.Range.End.Byte > er.End.Byte {
					add("hover:value-range-outside-value", "value", fmt.Sprintf("hover range %s is not inside the value %s", fmtRange(hd.Range), fmtRange(er)))
				}
				cx.L.Count("exact_hovers", 1)
			}
			return
		}
	}
	for _, b := range bc.Body.Blocks {
		bs, known := bc.Eff.BlockSchemaFor(b.Type)
		if in(b.TypeRange) {
			if !known {
				return
			}
			expect("block-type", b.TypeRange, []string{b.Type, bs.Description.Value})
			return
		}
		for i, lr := range b.LabelRanges {
			if !in(lr) {
				continue
			}
			if !known || i >= len(bs.Labels) {
				if hd != nil {
					add("hover:unknown-element-described", "label", fmt.Sprintf("surplus label / unknown block but hover returned %q", hd.Content.Value))
				}
				return
			}
			ls := bs.Labels[i]
			must := []string{b.Labels[i]}
			if ls.IsDepKey && bs.Body != nil {
				if e := model.EffectiveIn(bc.Eff, bs, b); e.Dep != nil && (e.Sel == model.Resolved || e.Sel == model.Partial) {
					// the dependent body's detail/description when one was selected
					dep := e.Dep
					if e.Sel == model.Partial || len(e.KeyAttrs) > 0 {
						dep = firstLevelDep(bs, b)
					}
					if dep != nil {
						// detail and description are chosen separately: the selected body's, else the label's own
						detail, desc := dep.Detail, dep.Description.Value
						if detail == "" {
							detail = ls.Name
						}
						if desc == "" {
							desc = ls.Description.Value
						}
						must = append(must, detail, desc)
					}
				} else {
					must = append(must, ls.Description.Value)
				}
			} else {
				must = append(must, ls.Description.Value)
			}
			expect("label", lr, must)
			return
		}
	}
}

// firstLevelDep: the dependent body selected by the labels (and static-body key attributes) alone.
func firstLevelDep(bs *schema.BlockSchema, b *hclsyntax.Block) *schema.BodySchema {
	e := model.Effective(bs, b)
	return e.Dep
}

// c12ObjectKeys: inside an object literal under an Object constraint, a hover that describes an
// object attribute (content starting with **name**) must describe the attribute whose item holds
// the cursor - never a neighbouring item's.
func c12ObjectKeys(cx *explore.Ctx, q run.Query, hd *lang.HoverData, attr *hclsyntax.Attribute, cons schema.Constraint) {
	oc, ok := cons.(schema.Object)
	if !ok || hd == nil {
		return
	}
	obj, ok := attr.Expr.(*hclsyntax.ObjectConsExpr)
	if !ok {
		return
	}
	if !strings.HasPrefix(hd.Content.Value, "**") {
		return
	}
	rest := hd.Content.Value[2:]
	end := strings.Index(rest, "**")
	if end < 0 {
		return
	}
	named := rest[:end]
	if _, isAttr := oc.Attributes[named]; !isAttr && named != "" {
		return
	}
	for _, it := range obj.Items {
		ir := hcl.RangeBetween(it.KeyExpr.Range(), it.ValueExpr.Range())
		if ir.Start.Byte <= q.Pos.Byte && q.Pos.Byte <= ir.End.Byte {
			key, isLit := model.LiteralKey(it.KeyExpr)
			cx.L.Count("object_key_hovers", 1)
			if !isLit || key != named {
				v := witness(cx, "sweep", q)
				v.Clause = "hover:describes-other-object-attribute"
				v.Site = "object-item"
				v.Detail = fmt.Sprintf("%s: hover %q describes object attribute %q but the cursor is in the item with key %q (literal key: %v)\nfile:\n%s", q, hd.Content.Value, named, string(cx.Src[it.KeyExpr.Range().Start.Byte:it.KeyExpr.Range().End.Byte]), isLit, cx.Case.Text)
				cx.C.Add(v)
			}
			return
		}
	}
}

// c12TypeDecl: under a TypeDeclaration constraint a hover whose range is exactly one sub-expression describes
// the type that sub-expression declares: nothing that is no type (an unknown keyword) is described as one, and
// the key of an object type item names the type written as its value (optional(...) looked through).
func c12TypeDecl(cx *explore.Ctx, q run.Query, hd *lang.HoverData, attr *hclsyntax.Attribute, cons schema.Constraint) {
	if _, ok := cons.(schema.TypeDeclaration); !ok || hd == nil {
		return
	}
	prim := func(t cty.Type) string {
		switch t {
		case cty.String:
			return "string"
		case cty.Number:
			return "number"
		case cty.Bool:
			return "bool"
		}
		return ""
	}
	report := func(clause, detail string) {
		v := witness(cx, "sweep", q)
		v.Clause = clause
		v.Site = "type-declaration"
		v.Detail = fmt.Sprintf("%s: %s\nfile:\n%s", q, detail, cx.Case.Text)
		cx.C.Add(v)
	}
	_ = hclsyntax.VisitAll(attr.Expr, func(n hclsyntax.Node) hcl.Diagnostics {
		switch x := n.(type) {
		case *hclsyntax.ScopeTraversalExpr:
			if x.Range() == hd.Range {
				cx.L.Count("type_declaration_hovers", 1)
				if _, d := typeexpr.TypeConstraint(x); d.HasErrors() {
					report("hover:describes-what-is-no-type", fmt.Sprintf("%q is no type keyword but hover describes it as %q", string(x.Range().SliceBytes(cx.Src)), hd.Content.Value))
				}
			}
		case *hclsyntax.ObjectConsExpr:
			for _, it := range x.Items {
				// (the hover of a key covers the whole item)
				if hcl.RangeBetween(it.KeyExpr.Range(), it.ValueExpr.Range()) != hd.Range || !(it.KeyExpr.Range().Start.Byte <= q.Pos.Byte && q.Pos.Byte < it.KeyExpr.Range().End.Byte) {
					continue
				}
				ve := it.ValueExpr
				if fc, ok := ve.(*hclsyntax.FunctionCallExpr); ok && fc.Name == "optional" && len(fc.Args) >= 1 {
					ve = fc.Args[0]
				}
				t, d := typeexpr.TypeConstraint(ve)
				if d.HasErrors() {
					continue
				}
				cx.L.Count("type_declaration_hovers", 1)
				if name := prim(t); name != "" && !strings.Contains(hd.Content.Value, name) {
					report("hover:object-type-item-names-other-type", fmt.Sprintf("the item's value declares %s but hover on its key says %q", name, hd.Content.Value))
				}
			}
		}
		return nil
	})
}
