package props

import (
	"github.com/hashicorp/hcl-lang/reference"
	"fmt"
	"sort"
	"strings"

	"github.com/hashicorp/hcl-lang/lang"
	"github.com/hashicorp/hcl-lang/schema"
	"github.com/hashicorp/hcl/v2"
	"github.com/hashicorp/hcl/v2/hclsyntax"
	"github.com/zclconf/go-cty/cty"

	"verif/internal/explore"
	"verif/internal/model"
	"verif/internal/run"
)

type expTok struct {
	typ  lang.SemanticTokenType
	mods string
	rng  hcl.Range
}

func modSet(ms ...[]lang.SemanticTokenModifier) string {
	set := map[string]bool{}
	for _, m := range ms {
		for _, x := range m {
			set[string(x)] = true
		}
	}
	var out []string
	for k := range set {
		out = append(out, k)
	}
	sort.Strings(out)
	return strings.Join(out, ",")
}

type valueZone struct {
	rng  hcl.Range
	attr *hclsyntax.Attribute
	cons schema.Constraint
}

// c13Model walks the syntax tree with the effective schema: expected name/type/label tokens, the
// value zones of known attributes and the extents of unknown items.
func c13Model(e *model.Eff, body *hclsyntax.Body, parent []lang.SemanticTokenModifier, toks *[]expTok, zones *[]valueZone, unknown *[]hcl.Range) {
	for name, a := range body.Attributes {
		if e == nil || !e.AttrKnown(name) {
			*unknown = append(*unknown, a.SrcRange)
			continue
		}
		var as *schema.AttributeSchema
		if (name == "count" && e.Ext.Count) || (name == "for_each" && e.Ext.ForEach) {
			// an enabled extension precedes a declared attribute of the same name - in every feature (C16)
			as = &schema.AttributeSchema{}
		} else if own, ok := e.Attributes[name]; ok {
			as = own
		} else {
			as = e.Any
		}
		*toks = append(*toks, expTok{lang.TokenAttrName, modSet(parent, as.SemanticTokenModifiers), a.NameRange})
		*zones = append(*zones, valueZone{a.Expr.Range(), a, as.Constraint})
	}
	for _, b := range body.Blocks {
		var bs *schema.BlockSchema
		ok := false
		if e != nil {
			bs, ok = e.BlockSchemaFor(b.Type)
		}
		if !ok {
			*unknown = append(*unknown, b.Range())
			continue
		}
		bm := append(append([]lang.SemanticTokenModifier{}, parent...), bs.SemanticTokenModifiers...)
		*toks = append(*toks, expTok{lang.TokenBlockType, modSet(bm), b.TypeRange})
		for i, lr := range b.LabelRanges {
			if i >= len(bs.Labels) {
				*unknown = append(*unknown, lr) // surplus label
				continue
			}
			*toks = append(*toks, expTok{lang.TokenBlockLabel, modSet(bm, bs.Labels[i].SemanticTokenModifiers), lr})
		}
		if bs.Body == nil && len(bs.DependentBody) == 0 {
			// no body schema: everything inside is unknown
			if b.Body != nil && b.Body.SrcRange.End.Byte > b.Body.SrcRange.Start.Byte {
				for _, a := range b.Body.Attributes {
					*unknown = append(*unknown, a.SrcRange)
				}
				for _, nb := range b.Body.Blocks {
					*unknown = append(*unknown, nb.Range())
				}
			}
			continue
		}
		c13Model(model.EffectiveIn(e, bs, b), b.Body, bm, toks, zones, unknown)
	}
}

func c13Exact(cx *explore.Ctx, q run.Query, got []lang.SemanticToken, body *hclsyntax.Body) {
	var exp []expTok
	var zones []valueZone
	var unknown []hcl.Range
	c13Model(model.RootEff(cx.Case.Entry.Mk()), body, nil, &exp, &zones, &unknown)
	add := func(clause, site, detail string) {
		v := witness(cx, "sweep", q)
		v.Clause = clause
		v.Site = site
		v.Detail = detail + "\nfile:\n" + cx.Case.Text
		cx.C.Add(v)
	}
	key := func(t lang.SemanticTokenType, r hcl.Range) string {
		return fmt.Sprintf("%s@%d-%d", t, r.Start.Byte, r.End.Byte)
	}
	want := map[string]expTok{}
	for _, e := range exp {
		want[key(e.typ, e.rng)] = e
	}
	seen := map[string]bool{}
	for _, t := range got {
		structural := t.Type == lang.TokenAttrName || t.Type == lang.TokenBlockType || t.Type == lang.TokenBlockLabel
		for _, z := range zones {
			// names inside a value (e.g. attribute names of an object type declaration) are value tokens
			if z.rng.Start.Byte <= t.Range.Start.Byte && t.Range.End.Byte <= z.rng.End.Byte && z.rng.End.Byte > z.rng.Start.Byte {
				structural = false
			}
		}
		if structural {
			k := key(t.Type, t.Range)
			e, ok := want[k]
			if !ok {
				add("tokens:extra-structural", string(t.Type), fmt.Sprintf("token %s at %s marks nothing the effective schema knows", t.Type, fmtRange(t.Range)))
				continue
			}
			seen[k] = true
			if m := modSet(t.Modifiers); m != e.mods {
				add("tokens:modifiers", string(t.Type), fmt.Sprintf("token %s at %s has modifiers [%s], expected the element's and all enclosing blocks' [%s]", t.Type, fmtRange(t.Range), m, e.mods))
			}
			continue
		}
		// value tokens: inside the value of a known attribute, never inside an unknown item
		in := false
		for _, z := range zones {
			if z.rng.Start.Byte <= t.Range.Start.Byte && t.Range.End.Byte <= z.rng.End.Byte {
				in = true
			}
		}
		if !in {
			add("tokens:value-token-outside-known-value", string(t.Type), fmt.Sprintf("token %s at %s is not inside the value of a schema-known attribute", t.Type, fmtRange(t.Range)))
		}
		for _, u := range unknown {
			if u.Start.Byte <= t.Range.Start.Byte && t.Range.End.Byte <= u.End.Byte {
				add("tokens:inside-unknown-item", string(t.Type), fmt.Sprintf("token %s at %s lies in an item unknown to the schema (%s)", t.Type, fmtRange(t.Range), fmtRange(u)))
			}
		}
	}
	for k, e := range want {
		if !seen[k] {
			add("tokens:missing-structural", string(e.typ), fmt.Sprintf("schema-known element at %s has no %s token", fmtRange(e.rng), e.typ))
		}
	}
	cx.L.Count("exact_structural_tokens", int64(len(exp)))
	// reference steps: tokens for exactly the references (collected origins of this file) that resolve to a
	// collected target - resolution as the reference package defines it
	if pc := cx.W.Ctx(0); pc != nil {
		type rr struct{ resolves bool }
		byRange := map[hcl.Range]*rr{}
		for _, o := range pc.ReferenceOrigins {
			r := o.OriginRange()
			if r.Filename != cx.Case.File {
				continue
			}
			x := byRange[r]
			if x == nil {
				x = &rr{}
				byRange[r] = x
			}
			if mo, ok := o.(reference.MatchableOrigin); ok {
				if _, ok := pc.ReferenceTargets.Match(mo); ok {
					x.resolves = true
				}
			}
		}
		for r, x := range byRange {
			n := 0
			for _, t := range got {
				if t.Type == lang.TokenReferenceStep && r.Start.Byte <= t.Range.Start.Byte && t.Range.End.Byte <= r.End.Byte {
					n++
				}
			}
			cx.L.Count("exact_reference_checks", 1)
			inZone := false
			for _, z := range zones {
				if z.rng.Start.Byte <= r.Start.Byte && r.End.Byte <= z.rng.End.Byte {
					inZone = true
				}
			}
			if x.resolves && inZone && n > 0 {
				// a plain traversal: one token per step, on the step's own extent (name / key without dot and brackets)
				if want := stepExtents(body, r, cx.Src); want != nil {
					cx.L.Count("exact_step_extents", 1)
					gotSteps := map[string]bool{}
					for _, t := range got {
						if r.Start.Byte <= t.Range.Start.Byte && t.Range.End.Byte <= r.End.Byte {
							gotSteps[fmt.Sprintf("%d-%d", t.Range.Start.Byte, t.Range.End.Byte)] = true
						}
					}
					for _, w := range want {
						if !gotSteps[w] {
							add("tokens:reference-step-extent", "hcl-referenceStep", fmt.Sprintf("the resolved reference at %s: no token on the step at bytes %s (tokens at %v)", fmtRange(r), w, boolKeys(gotSteps)))
							break
						}
						delete(gotSteps, w)
					}
					for g := range gotSteps {
						add("tokens:reference-step-extent", "hcl-referenceStep", fmt.Sprintf("the resolved reference at %s: a token at bytes %s is not the extent of any of its steps %v", fmtRange(r), g, want))
						break
					}
				}
			}
			if x.resolves && n == 0 && inZone {
				add("tokens:missing-reference-steps", "hcl-referenceStep:"+walkClass(exprPathAt(body, r), zoneTypeClass(zones, r)), fmt.Sprintf("the reference at %s resolves to a collected declaration but none of its steps has a token", fmtRange(r)))
			}
			if !x.resolves && n > 0 {
				add("tokens:reference-steps-of-unresolved-reference", "hcl-referenceStep", fmt.Sprintf("the reference at %s resolves to nothing but has %d step tokens", fmtRange(r), n))
			}
		}
	}
	// object literals under an object constraint: a key token on exactly the items whose key is a declared attribute
	// written as a plain or quoted name
	for _, z := range zones {
		names := map[string]bool{}
		switch c := z.cons.(type) {
		case schema.Object:
			for n := range c.Attributes {
				names[n] = true
			}
		case schema.LiteralType:
			if c.Type.IsObjectType() {
				for n := range c.Type.AttributeTypes() {
					names[n] = true
				}
			}
		case schema.AnyExpression:
			if c.OfType.IsObjectType() {
				for n := range c.OfType.AttributeTypes() {
					names[n] = true
				}
			}
		}
		obj, ok := z.attr.Expr.(*hclsyntax.ObjectConsExpr)
		if len(names) == 0 || !ok {
			continue
		}
		for _, it := range obj.Items {
			kr := it.KeyExpr.Range()
			key, isLit := model.LiteralKey(it.KeyExpr)
			known := isLit && names[key]
			n := 0
			for _, t := range got {
				if t.Type == lang.TokenObjectKey && kr.Start.Byte <= t.Range.Start.Byte && t.Range.End.Byte <= kr.End.Byte {
					n++
				}
			}
			cx.L.Count("exact_object_keys", 1)
			if known && n != 1 {
				add("tokens:object-key", "hcl-objectKey", fmt.Sprintf("the item key %q at %s is a declared attribute of the object but has %d key tokens", key, fmtRange(kr), n))
			} else if !known && n > 0 {
				add("tokens:object-key-on-undeclared-item", "hcl-objectKey", fmt.Sprintf("the item key at %s is no declared attribute written as a name, yet it has a key token", fmtRange(kr)))
			}
		}
	}
	// simple literal values: exactly one token of the literal's type covering the literal
	for _, z := range zones {
		var wantT lang.SemanticTokenType
		var litT cty.Type
		switch x := z.attr.Expr.(type) {
		case *hclsyntax.LiteralValueExpr:
			switch x.Val.Type() {
			case cty.Number:
				wantT, litT = lang.TokenNumber, cty.Number
			case cty.Bool:
				wantT, litT = lang.TokenBool, cty.Bool
			}
		case *hclsyntax.TemplateExpr:
			if x.IsStringLiteral() && x.Range().Start.Line == x.Range().End.Line {
				wantT, litT = lang.TokenString, cty.String
			}
		}
		if wantT == "" {
			continue
		}
		admits := false
		switch c := z.cons.(type) {
		case schema.LiteralType:
			admits = c.Type == litT
		case schema.AnyExpression:
			admits = c.OfType == litT
		}
		if !admits {
			continue
		}
		n := 0
		var tk lang.SemanticToken
		for _, t := range got {
			if z.rng.Start.Byte <= t.Range.Start.Byte && t.Range.End.Byte <= z.rng.End.Byte {
				n++
				tk = t
			}
		}
		cx.L.Count("exact_literal_values", 1)
		if n != 1 || tk.Type != wantT || tk.Range != z.rng {
			add("tokens:literal-value", string(wantT), fmt.Sprintf("literal value at %s (constraint type %s): expected exactly one %s token covering it, got %d (last: %s %s)", fmtRange(z.rng), litT.FriendlyName(), wantT, n, tk.Type, fmtRange(tk.Range)))
		}
	}
}


// exprPathAt names the outermost expression that contains r and the node right above r (a site class for witnesses).
func exprPathAt(body *hclsyntax.Body, r hcl.Range) string {
	var chain []string
	_ = hclsyntax.VisitAll(body, func(n hclsyntax.Node) hcl.Diagnostics {
		if _, isExpr := n.(hclsyntax.Expression); !isExpr {
			return nil
		}
		nr := n.Range()
		if nr.Start.Byte <= r.Start.Byte && r.End.Byte <= nr.End.Byte {
			chain = append(chain, strings.TrimPrefix(fmt.Sprintf("%T", n), "*hclsyntax."))
		}
		return nil
	})
	// outermost expression (the attribute's value) and the node right above the reference
	switch {
	case len(chain) >= 3:
		return chain[0] + ">" + chain[len(chain)-2]
	case len(chain) == 2:
		return chain[0]
	}
	return strings.Join(chain, ">")
}


// stepExtents returns the byte extents ("start-end") of the steps of the plain traversal whose range is r:
// the root name, attribute names (without the dot), index keys (without brackets; a legacy ".N" index without
// the dot). nil if r is not a plain absolute traversal or a key is not a plain literal.
func stepExtents(body *hclsyntax.Body, r hcl.Range, src []byte) []string {
	var st *hclsyntax.ScopeTraversalExpr
	_ = hclsyntax.VisitAll(body, func(n hclsyntax.Node) hcl.Diagnostics {
		if x, ok := n.(*hclsyntax.ScopeTraversalExpr); ok && x.Range() == r {
			st = x
		}
		return nil
	})
	if st == nil {
		return nil
	}
	var out []string
	for _, step := range st.Traversal {
		sr := step.SourceRange()
		a, b := sr.Start.Byte, sr.End.Byte
		if a < 0 || b > len(src) || a >= b {
			return nil
		}
		switch step.(type) {
		case hcl.TraverseRoot:
		case hcl.TraverseAttr:
			if src[a] != '.' {
				return nil
			}
			a++
			// the step is the name, not the blanks the parser tolerates between the dot and the name
			for a < b && (src[a] == ' ' || src[a] == '\t') {
				a++
			}
		case hcl.TraverseIndex:
			switch {
			case src[a] == '[' && src[b-1] == ']':
				a, b = a+1, b-1
				// blanks inside the brackets make the key's extent ambiguous
				if strings.TrimSpace(string(src[a:b])) != string(src[a:b]) {
					return nil
				}
			case src[a] == '.':
				a++
			default:
				return nil
			}
		default:
			return nil
		}
		out = append(out, fmt.Sprintf("%d-%d", a, b))
	}
	return out
}


// zoneTypeClass names the kind of type the attribute holding r declares (site class: a collection literal under a
// primitive type is a different situation from one under a collection type).
func zoneTypeClass(zones []valueZone, r hcl.Range) string {
	for _, z := range zones {
		if z.rng.Start.Byte <= r.Start.Byte && r.End.Byte <= z.rng.End.Byte {
			var t cty.Type
			switch c := z.cons.(type) {
			case schema.AnyExpression:
				t = c.OfType
			case schema.LiteralType:
				t = c.Type
			default:
				return strings.TrimPrefix(fmt.Sprintf("%T", z.cons), "schema.")
			}
			switch {
			case t == cty.DynamicPseudoType:
				return "dynamic"
			case t.IsPrimitiveType():
				return "primitive"
			case t.IsListType() || t.IsSetType() || t.IsTupleType():
				return "sequence"
			case t.IsMapType() || t.IsObjectType():
				return "mapping"
			}
			return "other"
		}
	}
	return "?"
}


// walkClass sorts a reference without tokens into one of a few situations: inside a literal that conforms to the
// declared type (where the token walk certainly goes), or one of the places the type-directed walk is known not to
// reach although origins are collected there.
func walkClass(path, typeClass string) string {
	outer, parent := path, ""
	if i := strings.Index(path, ">"); i >= 0 {
		outer, parent = path[:i], path[i+1:]
	}
	seqOK := typeClass == "sequence"
	mapOK := typeClass == "mapping"
	switch {
	case typeClass == "dynamic" && (outer == "TupleConsExpr" || outer == "ObjectConsExpr" || outer == "ConditionalExpr"):
		return "unwalked:collection-literal-under-dynamic-type"
	case parent == "ParenthesesExpr" || parent == "TemplateWrapExpr":
		if outer == "ObjectConsExpr" && mapOK {
			return "object-key"
		}
	case outer == "SplatExpr":
		return "splat"
	case outer == "IndexExpr":
		return "index-collection"
	case outer == "ForExpr":
		return "for"
	case outer == "TupleConsExpr" && parent == "" && seqOK, outer == "ObjectConsExpr" && parent == "" && mapOK:
		return "conforming-literal"
	case outer == "ConditionalExpr" && (parent == "TupleConsExpr" && seqOK || parent == "ObjectConsExpr" && mapOK):
		return "conforming-literal-in-conditional"
	}
	if outer == "TupleConsExpr" || outer == "ObjectConsExpr" || outer == "ConditionalExpr" {
		return "unwalked:literal-kind-does-not-match-declared-type"
	}
	// anything else the type-directed walk does enter (calls, operators, templates, parentheses, plain traversals)
	return "walked:" + outer
}
