package props

import (
	"encoding/json"
	"fmt"
	"sort"
	"strings"

	"github.com/hashicorp/hcl-lang/decoder"
	"github.com/hashicorp/hcl-lang/schema"
	"github.com/hashicorp/hcl/v2"
	"github.com/hashicorp/hcl/v2/hclsyntax"
	"github.com/zclconf/go-cty/cty"

	"verif/internal/explore"
	"verif/internal/gen"
	"verif/internal/report"
	"verif/internal/run"
	"verif/internal/world"
)

// symNode is the expected outline computed from the syntax tree by an independent walk.
type symNode struct {
	Name     string
	R        hcl.Range
	Children []symNode
}

func expectedSymbols(body *hclsyntax.Body) []symNode {
	var out []symNode
	for name, attr := range body.Attributes {
		out = append(out, symNode{Name: name, R: attr.SrcRange, Children: expectedExprSymbols(attr.Expr)})
	}
	for _, b := range body.Blocks {
		name := b.Type
		for _, l := range b.Labels {
			name += fmt.Sprintf(" %q", l)
		}
		out = append(out, symNode{Name: name, R: b.Range(), Children: expectedSymbols(b.Body)})
	}
	sort.SliceStable(out, func(i, j int) bool {
		if out[i].R.Start.Byte != out[j].R.Start.Byte {
			return out[i].R.Start.Byte < out[j].R.Start.Byte
		}
		return out[i].Name < out[j].Name
	})
	return out
}

// literalKey: the literally-keyed items of an object literal: bare identifier or quoted string
// without interpolation.
func literalKey(k hclsyntax.Expression) (string, bool) {
	ke, ok := k.(*hclsyntax.ObjectConsKeyExpr)
	if !ok {
		return "", false
	}
	switch w := ke.Wrapped.(type) {
	case *hclsyntax.ScopeTraversalExpr:
		if len(w.Traversal) == 1 && !ke.ForceNonLiteral {
			return w.Traversal.RootName(), true
		}
	case *hclsyntax.TemplateExpr:
		if w.IsStringLiteral() {
			v, _ := w.Value(nil)
			if v.Type() == cty.String && v.IsKnown() && !v.IsNull() {
				return v.AsString(), true
			}
		}
	}
	return "", false
}

func expectedExprSymbols(e hclsyntax.Expression) []symNode {
	var out []symNode
	switch x := e.(type) {
	case *hclsyntax.TupleConsExpr:
		for i, it := range x.Exprs {
			r := it.Range()
			if r.End.Byte < r.Start.Byte {
				// an unclosed element (the parser leaves its end at zero): the extent that can be named is its start
				r.End = r.Start
			}
			out = append(out, symNode{Name: fmt.Sprintf("%d", i), R: r, Children: expectedExprSymbols(it)})
		}
	case *hclsyntax.ObjectConsExpr:
		for _, it := range x.Items {
			k, ok := literalKey(it.KeyExpr)
			if !ok {
				// non-literal keys (numbers, bools, null, parenthesised, interpolated): the property
				// only speaks of literally-keyed items; whatever the library does with the others
				// is accepted if it evaluates to a known string.
				v, _ := it.KeyExpr.Value(nil)
				if v.IsNull() || !v.IsWhollyKnown() || v.Type() != cty.String {
					continue
				}
				k = v.AsString()
			}
			out = append(out, symNode{Name: k, R: hcl.RangeBetween(it.KeyExpr.Range(), it.ValueExpr.Range()), Children: expectedExprSymbols(it.ValueExpr)})
		}
	}
	return out
}

// compareSymbols returns a description of the first difference, or "".
func compareSymbols(where string, got []decoder.Symbol, want []symNode, parent *hcl.Range) (clause, detail string) {
	if len(got) != len(want) {
		var gn, wn []string
		for _, g := range got {
			gn = append(gn, g.Name())
		}
		for _, w := range want {
			wn = append(wn, w.Name)
		}
		return "symbols:count", fmt.Sprintf("%s: %d symbols %v, syntax tree has %d items %v", where, len(got), gn, len(want), wn)
	}
	for i := range got {
		g, w := got[i], want[i]
		if g.Name() != w.Name {
			return "symbols:name-or-order", fmt.Sprintf("%s[%d]: symbol %q, expected %q", where, i, g.Name(), w.Name)
		}
		if g.Range() != w.R {
			return "symbols:range", fmt.Sprintf("%s[%d] %q: range %s, item extent %s", where, i, g.Name(), fmtRange(g.Range()), fmtRange(w.R))
		}
		if parent != nil {
			r := g.Range()
			if r.Start.Byte < parent.Start.Byte || r.End.Byte > parent.End.Byte {
				// only meaningful for well-formed parents
				if parent.Start.Byte <= parent.End.Byte && r.Start.Byte <= r.End.Byte {
					return "symbols:child-outside-parent", fmt.Sprintf("%s[%d] %q: range %s outside parent %s", where, i, g.Name(), fmtRange(r), fmtRange(*parent))
				}
			}
		}
		pr := g.Range()
		if c, d := compareSymbols(where+"/"+g.Name(), g.NestedSymbols(), w.Children, &pr); c != "" {
			return c, d
		}
	}
	return "", ""
}

func c14Result(cx *explore.Ctx, q run.Query, r run.Result) {
	if r.Panic != nil || q.Kind != run.SymbolsFile {
		return
	}
	syms, ok := r.Val.([]decoder.Symbol)
	if !ok {
		return
	}
	f := cx.W.Ctx(0).Files[q.File]
	if f == nil {
		return
	}
	body, ok := f.Body.(*hclsyntax.Body)
	if !ok {
		return
	}
	want := expectedSymbols(body)
	cx.L.Count("symbols_compared", int64(len(want)))
	if c, d := compareSymbols("file", syms, want, nil); c != "" {
		v := witness(cx, "sweep", q)
		v.Clause = c
		v.Site = "symbols_file"
		v.Detail = d + "\nfile:\n" + cx.Case.Text
		cx.C.Add(v)
	}
	if len(want) > 0 {
		cx.L.Count("nontrivial", 1)
		cx.L.Outcome(run.Canon(r.Val))
		if cx.L.Counters["nontrivial"]%20000 == 1 {
			cx.C.Sample(map[string]any{"schema": cx.Case.Entry.ID, "file": cx.Case.Text, "symbols": len(want), "first": want[0].Name})
		}
	}
}

// C14: symbols are a faithful outline; workspace symbols under every subset of failing paths.
func C14(tier string) int {
	c := report.NewCollector("C14")
	deadline := explore.Deadline(tier)
	// part A: every file of the product sweep, with schema
	groups := explore.Groups(explore.CaseOpts{Tier: tier, Prefixes: true, Edits: true, Seqs: true})
	explore.SweepGroups(groups, c, deadline, explore.Opts{Kinds: []run.Kind{run.SymbolsFile}, OnResult: c14Result})
	// part A2: the structure-template files and the seed forms of the one-constraint bodies without
	// schema (one entry whose schema is nil)
	nos := gen.Entry{ID: "S:noschema", Mk: func() *schema.BodySchema { return nil }, Family: "struct", Hooks: -1}
	sg := explore.Groups(explore.CaseOpts{Tier: tier, Prefixes: true, Edits: true, OnlyFamily: "struct"})
	explore.ParallelEach(len(sg), c, deadline, func(i int, l *report.Local) {
		for _, cs := range sg[i]() {
			ncs := explore.Case{Entry: &nos, File: "main.tf", Text: cs.Text, Family: "noschema", PosTo: -1}
			explore.SweepCase(&ncs, c, l, explore.Opts{Kinds: []run.Kind{run.SymbolsFile}, OnResult: c14Result})
		}
	})
	var ns []explore.Case
	for _, v := range gen.ValueTexts(tier) {
		for _, sd := range gen.ConsSeeds(v) {
			ns = append(ns, explore.Case{Entry: &nos, File: "main.tf", Text: sd, Family: "noschema", PosTo: -1})
		}
	}
	explore.Sweep(ns, c, deadline, explore.Opts{Kinds: []run.Kind{run.SymbolsFile}, OnResult: c14Result})
	// part B: workspace symbols, every subset of unreadable paths, all query substrings
	c14Workspace(c, tier)
	c14JSONOrder(c)
	return c.Finish(report.FinishOpts{
		Tier: tier, Level: "fault_enumeration", EvalCounter: "calls",
		Rule: "part A: document symbols of every file of the E1 families (with schema and without) compared one-to-one, in order, names and ranges, with an independent walk of the hclsyntax tree, child range inside parent; part B: worlds of 1..4 paths x EVERY subset of paths whose PathContext fails x every query (all substrings of length <=3 of every symbol name, empty, non-matching): result == concatenation over readable paths of matching top-level symbols; non-trivial = at least one symbol expected",
		Assumptions: []string{
			"the hclsyntax tree is the oracle for what is 'written' (a duplicate attribute the parser drops is not in the tree)",
			"object items with non-literal keys are accepted either way if the key evaluates to a known string",
			"JSON outline is checked in C19",
		},
		BiteCounters: []string{"symbols_compared", "ws_queries", "ws_fault_subsets"},
	})
}

func wsWorldSpec(npaths int) *world.Spec {
	sp := &world.Spec{SchemaID: fmt.Sprintf("WS:%d", npaths), HookItems: -1}
	texts := [][]world.FileSpec{
		{{Name: "a.tf", Text: "alpha = 1\nres \"x\" {\n  inner = 2\n}\n"}, {Name: "b.tf", Text: "beta = [1, 2]\n"}},
		// (headers not written the way symbol names are rendered: several blanks, bare-word labels, escapes)
		{{Name: "main.tf", Text: "alpha = 2\ngamma \"g\" \"h\" {\n}\nomega   \"o\"\t\"p\" {\n}\nsigma bare word {\n}\ntau \"caf\\u00e9\" {\n}\n"}},
		{{Name: "z.tf", Text: "res \"y\" {\n}\nres \"x\" {\n}\n"}, {Name: "a.tf", Text: "delta = { alpha = 1 }\n"}},
		{{Name: "only.tf", Text: ""}},
	}
	for i := 0; i < npaths; i++ {
		var sch func() *schema.BodySchema
		if i%2 == 0 {
			sch = func() *schema.BodySchema {
				return &schema.BodySchema{Blocks: map[string]*schema.BlockSchema{"res": {Labels: []*schema.LabelSchema{{Name: "n"}}, Body: &schema.BodySchema{}}}}
			}
		}
		sp.Paths = append(sp.Paths, world.PathSpec{Path: fmt.Sprintf("/w%d", i), Schema: sch, Files: texts[i]})
	}
	return sp
}

type flatSym struct {
	Path, Name string
	R          hcl.Range
}

func c14Workspace(c *report.Collector, tier string) {
	l := report.NewLocal()
	defer c.Merge(l)
	for np := 1; np <= 4; np++ {
		spec := wsWorldSpec(np)
		// expected per-path top-level symbols from the syntax trees
		base := world.Build(spec)
		perPath := make([][]flatSym, np)
		names := map[string]bool{}
		for i := 0; i < np; i++ {
			for _, fn := range base.FileNames(i) {
				body := base.Ctx(i).Files[fn].Body.(*hclsyntax.Body)
				for _, s := range expectedSymbols(body) {
					perPath[i] = append(perPath[i], flatSym{Path: base.Paths[i].Path, Name: s.Name, R: s.R})
					names[s.Name] = true
				}
			}
		}
		queries := map[string]bool{"": true, "zzz-nomatch": true}
		for n := range names {
			for a := 0; a < len(n); a++ {
				for b := a + 1; b <= len(n) && b-a <= 3; b++ {
					queries[n[a:b]] = true
				}
			}
			queries[n] = true
		}
		qs := make([]string, 0, len(queries))
		for q := range queries {
			qs = append(qs, q)
		}
		sort.Strings(qs)
		for failMask := 0; failMask < 1<<np; failMask++ {
			for hideMask := 0; hideMask < 1<<np; hideMask++ {
				if hideMask != 0 && tier != "thorough" && hideMask != failMask {
					continue
				}
				w := world.Build(spec)
				for i := 0; i < np; i++ {
					w.Reader.Fail[world.PK(w.Paths[i])] = failMask&(1<<i) != 0
					w.Reader.Hide[world.PK(w.Paths[i])] = hideMask&(1<<i) != 0
				}
				l.Count("ws_fault_subsets", 1)
				for _, qstr := range qs {
					q := run.Query{Kind: run.SymbolsWS, Query: qstr}
					r := run.Call(w, q)
					l.Count("calls", 1)
					l.Count("ws_queries", 1)
					var want []flatSym
					for i := 0; i < np; i++ {
						if failMask&(1<<i) != 0 || hideMask&(1<<i) != 0 {
							continue
						}
						for _, s := range perPath[i] {
							if qstr == "" || strings.Contains(s.Name, qstr) {
								want = append(want, s)
							}
						}
					}
					var got []flatSym
					bad := ""
					if r.Panic != nil {
						bad = "panic " + r.Panic.Sig()
					} else if r.Err != nil {
						bad = "error " + r.Err.Error()
					} else {
						for _, s := range r.Val.([]decoder.Symbol) {
							got = append(got, flatSym{Path: s.Path().Path, Name: s.Name(), R: s.Range()})
						}
						if fmt.Sprint(got) != fmt.Sprint(want) {
							bad = fmt.Sprintf("got %v\nwant %v", got, want)
						}
					}
					if bad != "" {
						clause := "workspace:mismatch"
						if failMask != 0 {
							clause = "workspace:unreadable-path-affects-others"
						}
						c.Add(&report.Violation{Clause: clause, Site: "symbols_ws", Check: "workspace",
							Detail: fmt.Sprintf("paths=%d failing=%04b hidden=%04b query=%q: %s", np, failMask, hideMask, qstr, bad),
							Extra:  report.J(map[string]any{"paths": np, "fail": failMask, "hide": hideMask, "query": qstr})})
					}
					if len(want) > 0 && failMask == 5 && qstr == "al" {
						c.Sample(map[string]any{"workspace_paths": np, "failing_mask": failMask, "hidden_mask": hideMask, "query": qstr, "expected": fmt.Sprint(want), "got": fmt.Sprint(got)})
					}
					if len(want) > 0 {
						l.Count("nontrivial", 1)
						l.Outcome(fmt.Sprint(np, failMask, hideMask, qstr, want))
					}
				}
			}
		}
	}
}


// c14JSONOrder (part C): JSON files decoded with a schema. The abstract configurations of the C19 generator
// are rendered to JSON in object form and in array form; where a configuration keeps the blocks of one type
// together, the order of the JSON members is the order of the configuration's items, and the outline (per
// file and workspace-wide) must list exactly those attributes and blocks, in that order, at every level.
func c14JSONOrder(c *report.Collector) {
	l := report.NewLocal()
	defer c.Merge(l)
	var expect func(items []citem) []projSym
	expect = func(items []citem) []projSym {
		var out []projSym
		for _, it := range items {
			if it.block == "" {
				out = append(out, projSym{"attr", it.attr, nil})
				continue
			}
			name := it.block
			for _, lb := range it.labels {
				name += fmt.Sprintf(" %q", lb)
			}
			out = append(out, projSym{"block", name, expect(it.body)})
		}
		return out
	}
	ent := gen.Entry{ID: "J:c19", Mk: c19Schema, Family: "struct", Hooks: -1}
	cfgs := append(c19Configs(), c19MoreConfigs()...)
	for _, cfg := range cfgs {
		if !grouped(cfg) {
			continue
		}
		want := fmt.Sprint(expect(cfg))
		for _, arrayForm := range []bool{false, true} {
			jb, err := json.MarshalIndent(renderJSON(cfg, arrayForm), "", "  ")
			if err != nil {
				continue
			}
			js := string(jb) + "\n"
			w := world.Build(explore.EntrySpec(&ent, []world.FileSpec{{Name: "main.tf.json", Text: js}}))
			for _, q := range []run.Query{{Kind: run.SymbolsFile, File: "main.tf.json"}, {Kind: run.SymbolsWS, Query: ""}} {
				r := run.Call(w, q)
				l.Count("calls", 1)
				l.Count("json_outlines", 1)
				ss, ok := r.Val.([]decoder.Symbol)
				if !ok || r.Panic != nil || r.Err != nil {
					// (the per-file entry point answers "unknown file format" for JSON on this tree; the
					// workspace query is the one that decodes JSON with the schema)
					l.Count("json_outline_errors", 1)
					continue
				}
				got := fmt.Sprint(projectSymbols(ss))
				if got != want {
					clause := "json:outline-differs"
					if fmt.Sprint(sortSyms(projectSymbols(ss))) == fmt.Sprint(sortSyms(expect(cfg))) {
						clause = "json:not-in-source-order"
					}
					c.Add(&report.Violation{Clause: clause, Site: string(q.Kind), Check: "json-order", SchemaID: ent.ID, Files: []report.FileSpec{{Path: "/p0", Name: "main.tf.json", Text: js}}, Query: report.J(q),
						Detail: fmt.Sprintf("outline of the JSON file (array form %v):\n got:  %s\n want: %s\nfile:\n%s", arrayForm, got, want, js)})
				}
				if len(ss) > 0 {
					l.Count("nontrivial", 1)
					l.Outcome(got)
				}
			}
		}
	}
}
