package props

import (
	"fmt"
	"sort"
	"strings"

	"github.com/hashicorp/hcl-lang/lang"
	"github.com/hashicorp/hcl-lang/schema"
	"github.com/hashicorp/hcl/v2"
	"github.com/hashicorp/hcl/v2/hclsyntax"
	"github.com/zclconf/go-cty/cty"

	"verif/internal/explore"
	"verif/internal/gen"
	"verif/internal/model"
	"verif/internal/report"
	"verif/internal/run"
	"verif/internal/world"
)

func c15Schema() *schema.BodySchema {
	str := func() schema.Constraint { return schema.LiteralType{Type: cty.String} }
	return &schema.BodySchema{
		Attributes: map[string]*schema.AttributeSchema{
			"req": {Constraint: str(), IsRequired: true},
			"opt": {Constraint: str(), IsOptional: true},
			"dep": {Constraint: str(), IsOptional: true, IsDeprecated: true, Description: lang.Markdown("old")},
		},
		Blocks: map[string]*schema.BlockSchema{
			"lbl":  {Labels: []*schema.LabelSchema{{Name: "n"}}, MinItems: 1, MaxItems: 2, Body: &schema.BodySchema{Attributes: map[string]*schema.AttributeSchema{"x": {Constraint: str(), IsOptional: true}}}},
			"nol":  {MaxItems: 1, Body: &schema.BodySchema{}},
			"depb": {IsDeprecated: true, Body: &schema.BodySchema{}},
			"res": {
				Labels: []*schema.LabelSchema{{Name: "type", IsDepKey: true}, {Name: "name"}},
				Body: &schema.BodySchema{
					Extensions: &schema.BodyExtensions{DynamicBlocks: true, Count: true},
					Attributes: map[string]*schema.AttributeSchema{"st": {Constraint: str(), IsOptional: true}},
				},
				DependentBody: map[schema.SchemaKey]*schema.BodySchema{
					schema.NewSchemaKey(schema.DependencyKeys{Labels: []schema.LabelDependent{{Index: 0, Value: "a"}}}): {
						Attributes: map[string]*schema.AttributeSchema{"ra": {Constraint: str(), IsRequired: true}, "od": {Constraint: str(), IsOptional: true, IsDeprecated: true}},
						Blocks: map[string]*schema.BlockSchema{
							"multi": {MinItems: 2, Body: &schema.BodySchema{}},
							"in":    {MinItems: 1, MaxItems: 1, Body: &schema.BodySchema{Attributes: map[string]*schema.AttributeSchema{"q": {Constraint: str(), IsRequired: true}}}},
						},
					},
				},
			},
		},
	}
}

// c15Configs enumerates every combination of injected violations at the root and inside the
// nested `res` block.
func c15Configs(tier string) []string {
	var out []string
	for root := 0; root < 1<<7; root++ {
		for lblCount := 0; lblCount <= 3; lblCount++ {
			if lblCount == 2 {
				continue
			}
			var sb strings.Builder
			bit := func(i int) bool { return root&(1<<i) != 0 }
			if !bit(0) {
				sb.WriteString("req = \"r\"\n")
			}
			if bit(1) {
				sb.WriteString("unknown_attr = 1\n")
			}
			if bit(2) {
				sb.WriteString("unknown_block \"u\" {\n  inner_unknown = 1\n  lbl {\n  }\n}\n")
			}
			if bit(3) {
				sb.WriteString("dep = \"d\"\n")
			}
			if bit(4) {
				sb.WriteString("depb {\n}\n")
			}
			for i := 0; i < lblCount; i++ {
				switch {
				case i == 0 && bit(5):
					sb.WriteString("lbl \"a\" \"surplus\" \"more\" {\n}\n")
				case i == 0 && bit(6):
					sb.WriteString("lbl {\n  x = \"1\"\n}\n")
				default:
					fmt.Fprintf(&sb, "lbl \"l%d\" {\n}\n", i)
				}
			}
			rootText := sb.String()
			// nested combinations only with a subset of root combinations to keep the product finite:
			// quick: root clean or all-on; thorough: every root combination
			nestedFor := root == 0 || root == 1<<7-1 || tier == "thorough"
			if !nestedFor {
				out = append(out, rootText+"nol {\n}\nnol {\n}\n")
				out = append(out, rootText)
				continue
			}
			for nested := 0; nested < 1<<3; nested++ {
				for inMode := 0; inMode < 6; inMode++ {
					for _, label := range []string{"\"a\" \"n\"", "\"zz\" \"n\"", "", "\"a\""} {
						var nb strings.Builder
						nb.WriteString(rootText)
						fmt.Fprintf(&nb, "res %s {\n", label)
						if nested&1 == 0 {
							nb.WriteString("  ra = \"x\"\n")
						}
						if nested&2 != 0 {
							nb.WriteString("  nested_unknown = 1\n  od = \"o\"\n")
						}
						if nested&4 != 0 {
							nb.WriteString("  nested_unknown_block {\n  }\n  count = 1\n")
						}
						switch inMode {
						case 1:
							nb.WriteString("  in {\n    q = \"1\"\n  }\n")
						case 2:
							nb.WriteString("  dynamic \"in\" {\n    for_each = []\n    content {\n      zz = 1\n    }\n  }\n")
						case 3:
							nb.WriteString("  in {\n  }\n  in {\n    q = \"2\"\n  }\n  dynamic \"nope\" {\n    for_each = []\n    content {\n    }\n  }\n")
						case 4:
							// one static block of a type that needs two, plus a dynamic block of that type
							nb.WriteString("  in {\n    q = \"1\"\n  }\n  multi {\n  }\n  dynamic \"multi\" {\n    for_each = []\n    content {\n    }\n  }\n")
						case 5:
							nb.WriteString("  in {\n    q = \"1\"\n  }\n  dynamic \"multi\" {\n    for_each = []\n    content {\n    }\n  }\n  multi {\n  }\n  multi {\n  }\n")
						}
						nb.WriteString("}\n")
						out = append(out, nb.String())
					}
				}
			}
		}
	}
	return out
}

type actDiag struct {
	sev        hcl.DiagnosticSeverity
	kind, item string
	subj       *hcl.Range
	used       bool
}

// compareDiags matches actual diagnostics to expected ones as multisets of (severity, kind, item)
// with the subject inside the expected extent. Returns a description of the first mismatch.
func compareDiags(exp []model.ExpDiag, act hcl.Diagnostics, file string) (clause, detail string) {
	var as []*actDiag
	for _, d := range act {
		k, it := model.ClassifyDiag(d)
		as = append(as, &actDiag{sev: d.Severity, kind: k, item: it, subj: d.Subject})
	}
	norm := func(k string) string {
		if strings.HasPrefix(k, "deprecated") {
			return "deprecated"
		}
		return k
	}
	for _, e := range exp {
		item := e.Item
		if i := strings.Index(item, "#"); i >= 0 {
			item = item[:i]
		}
		found := false
		for _, a := range as {
			if a.used || a.sev != e.Sev || a.kind != norm(e.Kind) || a.item != item {
				continue
			}
			if a.subj == nil {
				return "diag:no-subject", fmt.Sprintf("diagnostic %s %q has no subject", a.kind, a.item)
			}
			if a.subj.Filename != file || a.subj.Start.Byte < e.Within.Start.Byte || a.subj.End.Byte > e.Within.End.Byte {
				continue
			}
			a.used = true
			found = true
			break
		}
		if !found {
			return "diag:missing:" + norm(e.Kind), fmt.Sprintf("expected %s for %q within %s, not reported (or subject elsewhere); actual: %s", e.Kind, e.Item, fmtRange(e.Within), fmtDiags(act))
		}
	}
	for _, a := range as {
		if !a.used {
			return "diag:surplus:" + a.kind, fmt.Sprintf("unexpected diagnostic %s %q subject %v; expected set: %s", a.kind, a.item, a.subj, fmtExp(exp))
		}
	}
	return "", ""
}

func fmtDiags(ds hcl.Diagnostics) string {
	var s []string
	for _, d := range ds {
		k, it := model.ClassifyDiag(d)
		r := "nil"
		if d.Subject != nil {
			r = fmt.Sprintf("%d-%d", d.Subject.Start.Byte, d.Subject.End.Byte)
		}
		s = append(s, fmt.Sprintf("%s(%s)@%s", k, it, r))
	}
	sort.Strings(s)
	return strings.Join(s, ", ")
}

func fmtExp(es []model.ExpDiag) string {
	var s []string
	for _, e := range es {
		s = append(s, fmt.Sprintf("%s(%s)", e.Kind, e.Item))
	}
	sort.Strings(s)
	return strings.Join(s, ", ")
}

// c15Check validates one world's main file against the model.
func c15Check(w *world.World, file, text, schemaID string, root *schema.BodySchema, c *report.Collector, l *report.Local) {
	f := w.Ctx(0).Files[file]
	if f == nil {
		return
	}
	body, ok := f.Body.(*hclsyntax.Body)
	if !ok {
		return
	}
	r := run.Call(w, run.Query{Kind: run.ValidateFile, File: file})
	l.Count("calls", 1)
	if r.Panic != nil || r.Err != nil {
		return
	}
	act := r.Val.(hcl.Diagnostics)
	exp := model.Validate(model.RootEff(root), body, false)
	l.Count("expected_diags", int64(len(exp)))
	if cl, det := compareDiags(exp, act, file); cl != "" {
		c.Add(&report.Violation{Clause: cl, Site: "validate_file", Check: "c15", SchemaID: schemaID, Files: []report.FileSpec{{Path: "/p0", Name: file, Text: text}},
			Detail: det + "\nfile:\n" + text})
	}
	// Validate == union of ValidateFile per file
	rv := run.Call(w, run.Query{Kind: run.Validate})
	l.Count("calls", 1)
	if rv.Panic == nil && rv.Err == nil {
		dm := rv.Val.(lang.DiagnosticsMap)
		if run.Canon(dm[file]) != run.Canon(act) {
			c.Add(&report.Violation{Clause: "validate-vs-validate-file", Site: "validate", Check: "c15", SchemaID: schemaID,
				Detail: fmt.Sprintf("Validate()[%s] differs from ValidateFile: %s vs %s\nfile:\n%s", file, fmtDiags(dm[file]), fmtDiags(act), text)})
		}
	}
	if len(exp) > 0 {
		l.Count("nontrivial", 1)
		l.Outcome(fmtExp(exp))
	}
}

// C15: validation reports exactly the schema violations present.
func C15(tier string) int {
	c := report.NewCollector("C15")
	deadline := explore.Deadline(tier)
	// part 1: every combination of injected violations
	cfgs := c15Configs(tier)
	ent := gen.Entry{ID: "V:c15", Mk: c15Schema, Family: "struct", Hooks: -1}
	explore.ParallelEach(len(cfgs), c, deadline, func(i int, l *report.Local) {
		cs := explore.Case{Entry: &ent, File: "main.tf", Text: cfgs[i], PosTo: -1}
		w := world.Build(cs.Spec())
		c15Check(w, "main.tf", cfgs[i], ent.ID, c15Schema(), c, l)
		l.Count("violation_combinations", 1)
	})
	// part 2: the model is AST-driven, so it is exact on every file of the catalogue sweep too
	groups := explore.Groups(explore.CaseOpts{Tier: tier, Prefixes: true, Edits: true, OnlyFamily: "struct"})
	explore.ParallelEach(len(groups), c, deadline, func(i int, l *report.Local) {
		cases := groups[i]()
		for j := range cases {
			cs := &cases[j]
			w := world.Build(cs.Spec())
			c15Check(w, cs.File, cs.Text, cs.Entry.ID, cs.Entry.Mk(), c, l)
			l.Count("catalogue_files", 1)
		}
	})
	c.Sample(map[string]any{"config": cfgs[len(cfgs)/2], "expected": fmtExp(func() []model.ExpDiag {
		f := world.ParseFile("main.tf", cfgs[len(cfgs)/2])
		return model.Validate(model.RootEff(c15Schema()), f.Body.(*hclsyntax.Body), false)
	}())})
	return c.Finish(report.FinishOpts{
		Tier: tier, Level: "exploration", EvalCounter: "calls",
		Rule:         "E2: (1) a validation schema (required/optional/deprecated attributes, min/max, labels, dependent body resolved/unresolved/missing label, DynamicBlocks, count) x EVERY combination of injected violations at the root {unknown attr, unknown block, missing required, deprecated attr, deprecated block, surplus labels, missing label} x block counts {0,1,3} and inside the nested block {missing required, unknown+deprecated attr, unknown block+count} x {no, one, dynamic, too many} nested blocks x 4 label forms; (2) every file of the structure-template sweep incl. prefixes and single-token edits. Oracle: reference validator written from the statement over the syntax tree; diagnostics compared as multisets of (severity, kind, item) with the subject inside the offending item's extent (body extent for per-body counts); Validate == union of ValidateFile. non-trivial = at least one expected diagnostic.",
		Assumptions:  []string{"a block type whose schema has no body, or an unknown block, makes everything inside 'unknown' (nothing reported)", "required/limit diagnostics are still expected inside partially resolved blocks (the statement only exempts 'unexpected')"},
		BiteCounters: []string{"expected_diags", "violation_combinations", "catalogue_files"},
	})
}
