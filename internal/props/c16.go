package props

import (
	"fmt"
	"sort"
	"strings"

	"github.com/hashicorp/hcl-lang/lang"
	"github.com/hashicorp/hcl-lang/reference"
	"github.com/hashicorp/hcl-lang/schema"
	"github.com/hashicorp/hcl/v2"
	"github.com/hashicorp/hcl/v2/hclsyntax"
	"github.com/zclconf/go-cty/cty"

	"verif/internal/explore"
	"verif/internal/gen"
	"verif/internal/model"
	"verif/internal/report"
	"verif/internal/run"
	"verif/internal/world"
)

func depKey(labels []schema.LabelDependent, attrs []schema.AttributeDependent) schema.SchemaKey {
	return schema.NewSchemaKey(schema.DependencyKeys{Labels: labels, Attributes: attrs})
}
func lbl(i int, v string) schema.LabelDependent { return schema.LabelDependent{Index: i, Value: v} }
func attrDep(n string, v cty.Value) schema.AttributeDependent {
	return schema.AttributeDependent{Name: n, Expr: schema.ExpressionValue{Static: v}}
}
func attrDepAddr(n string, a lang.Address) schema.AttributeDependent {
	return schema.AttributeDependent{Name: n, Expr: schema.ExpressionValue{Address: a}}
}

// ---- part 1: key algebra ------------------------------------------------------------------------

type kvAttr struct {
	name string
	val  schema.ExpressionValue
	desc string
}

func permutations(n int) [][]int {
	var out [][]int
	var rec func(cur []int, used []bool)
	rec = func(cur []int, used []bool) {
		if len(cur) == n {
			out = append(out, append([]int{}, cur...))
			return
		}
		for i := 0; i < n; i++ {
			if !used[i] {
				used[i] = true
				rec(append(cur, i), used)
				used[i] = false
			}
		}
	}
	rec(nil, make([]bool, n))
	return out
}

func c16KeyAlgebra(c *report.Collector, l *report.Local) {
	labelVals := []string{"a", "b", ""}
	attrVals := []struct {
		d string
		v schema.ExpressionValue
	}{
		{`"a"`, schema.ExpressionValue{Static: cty.StringVal("a")}}, {`"b"`, schema.ExpressionValue{Static: cty.StringVal("b")}},
		{`"1"`, schema.ExpressionValue{Static: cty.StringVal("1")}}, {`"true"`, schema.ExpressionValue{Static: cty.StringVal("true")}},
		{`1`, schema.ExpressionValue{Static: cty.NumberIntVal(1)}}, {`2`, schema.ExpressionValue{Static: cty.NumberIntVal(2)}},
		{`true`, schema.ExpressionValue{Static: cty.True}},
		{`r.s`, schema.ExpressionValue{Address: lang.Address{lang.RootStep{Name: "r"}, lang.AttrStep{Name: "s"}}}},
		{`r`, schema.ExpressionValue{Address: lang.Address{lang.RootStep{Name: "r"}}}},
		{`r[1]`, schema.ExpressionValue{Address: lang.Address{lang.RootStep{Name: "r"}, lang.IndexStep{Key: cty.NumberIntVal(1)}}}},
		{`r["1"]`, schema.ExpressionValue{Address: lang.Address{lang.RootStep{Name: "r"}, lang.IndexStep{Key: cty.StringVal("1")}}}},
		// numbers that are no small naturals: as values and as index keys
		{`1.5`, schema.ExpressionValue{Static: cty.NumberFloatVal(1.5)}}, {`-1`, schema.ExpressionValue{Static: cty.NumberIntVal(-1)}},
		{`r[1.5]`, schema.ExpressionValue{Address: lang.Address{lang.RootStep{Name: "r"}, lang.IndexStep{Key: cty.NumberFloatVal(1.5)}}}},
		{`r[-1]`, schema.ExpressionValue{Address: lang.Address{lang.RootStep{Name: "r"}, lang.IndexStep{Key: cty.NumberIntVal(-1)}}}},
		{`r[1e30]`, schema.ExpressionValue{Address: lang.Address{lang.RootStep{Name: "r"}, lang.IndexStep{Key: cty.MustParseNumberVal("1e30")}}}},
		{`r[2e30]`, schema.ExpressionValue{Address: lang.Address{lang.RootStep{Name: "r"}, lang.IndexStep{Key: cty.MustParseNumberVal("2e30")}}}},
	}
	names := []string{"x", "y", "z"}
	keyOwner := map[schema.SchemaKey]string{}
	// each label index / attribute name is absent or carries one value (a key maps each to one value)
	var lsel [3]int
	var asel [3]int
	for lsel[0] = -1; lsel[0] < len(labelVals); lsel[0]++ {
		for lsel[1] = -1; lsel[1] < len(labelVals); lsel[1]++ {
			for lsel[2] = -1; lsel[2] < len(labelVals); lsel[2]++ {
				for asel[0] = -1; asel[0] < len(attrVals); asel[0]++ {
					for asel[1] = -1; asel[1] < len(attrVals); asel[1]++ {
						for asel[2] = -1; asel[2] < len(attrVals); asel[2]++ {
							var ls []schema.LabelDependent
							var as []schema.AttributeDependent
							desc := ""
							for i, s := range lsel {
								if s >= 0 {
									ls = append(ls, schema.LabelDependent{Index: i, Value: labelVals[s]})
									desc += fmt.Sprintf("label%d=%q ", i, labelVals[s])
								}
							}
							for i, s := range asel {
								if s >= 0 {
									as = append(as, schema.AttributeDependent{Name: names[i], Expr: attrVals[s].v})
									desc += fmt.Sprintf("%s=%s ", names[i], attrVals[s].d)
								}
							}
							l.Count("key_sets", 1)
							var first schema.SchemaKey
							for pi, lp := range permutations(len(ls)) {
								for pj, ap := range permutations(len(as)) {
									dk := schema.DependencyKeys{}
									for _, i := range lp {
										dk.Labels = append(dk.Labels, ls[i])
									}
									for _, i := range ap {
										dk.Attributes = append(dk.Attributes, as[i])
									}
									k := schema.NewSchemaKey(dk)
									l.Count("calls", 1)
									l.Count("key_permutations", 1)
									if pi == 0 && pj == 0 {
										first = k
									} else if k != first {
										c.Add(&report.Violation{Clause: "key:order-dependent", Site: "NewSchemaKey", Check: "keys",
											Detail: fmt.Sprintf("set {%s}: listing order labels%v attrs%v gives key %s, first order gave %s", desc, lp, ap, k, first)})
									}
								}
							}
							if other, dup := keyOwner[first]; dup && other != desc {
								c.Add(&report.Violation{Clause: "key:collision", Site: "NewSchemaKey", Check: "keys",
									Detail: fmt.Sprintf("different sets share key %s: {%s} and {%s}", first, desc, other)})
							}
							keyOwner[first] = desc
							if len(ls)+len(as) > 0 {
								l.Count("nontrivial", 1)
								l.Outcome(string(first))
							}
						}
					}
				}
			}
		}
	}
	c.Sample(map[string]any{"key_set": "label0=\"a\" x=\"1\" y=1", "permutations": 2, "requirement": "same key for every listing order; distinct from the key of every other set"})
}

// ---- part 2: marker worlds ----------------------------------------------------------------------

type c16Attr struct {
	name string
	text string // HCL text of the value ("" = not written: default applies)
	val  schema.ExpressionValue
}

type c16Sel struct {
	labels []string // label texts (nil entry impossible); missing labels = shorter slice
	attrs  []c16Attr
	marker string // marker of the body this selection must select ("" = none / unresolved)
	docs   bool   // the selected body has a docs link
	// which label indexes / attr names take part in the selecting key
	keyLabels []int
	keyAttrs  []string
	unknown   bool // dependent body not (fully) resolved: nothing is unexpected
}

type c16Template struct {
	id      string
	block   string
	mk      func() *schema.BodySchema
	sels    []c16Sel
	markers []string
}

func mkMarker(name string, docs bool, mod func(b *schema.BodySchema)) *schema.BodySchema {
	b := &schema.BodySchema{
		Detail:      "detail-" + name,
		Description: lang.Markdown("body " + name),
		Attributes: map[string]*schema.AttributeSchema{
			name: {Constraint: schema.AnyExpression{OfType: cty.String}, IsOptional: true, Description: lang.Markdown("marker " + name),
				SemanticTokenModifiers: lang.SemanticTokenModifiers{lang.SemanticTokenModifier("mod-" + name)},
				Address:                &schema.AttributeAddrSchema{Steps: schema.Address{schema.StaticStep{Name: "mk"}, schema.AttrNameStep{}}, AsReference: true}},
		},
	}
	if docs {
		b.DocsLink = &schema.DocsLink{URL: "https://example.com/" + name, Tooltip: "docs " + name}
	}
	if mod != nil {
		mod(b)
	}
	return b
}

func sv(s string) schema.ExpressionValue { return schema.ExpressionValue{Static: cty.StringVal(s)} }

func c16Templates() []c16Template {
	refDecl := func(b *schema.BodySchema) *schema.BodySchema {
		// a declaration the marker values can refer to
		b.Blocks["decl"] = &schema.BlockSchema{Labels: []*schema.LabelSchema{{Name: "n"}}, Body: &schema.BodySchema{},
			Address: &schema.BlockAddrSchema{Steps: schema.Address{schema.StaticStep{Name: "ref"}, schema.LabelStep{Index: 0}}, AsReference: true}}
		return b
	}
	strKey := func() *schema.AttributeSchema {
		return &schema.AttributeSchema{Constraint: schema.LiteralType{Type: cty.String}, IsOptional: true, IsDepKey: true}
	}
	var ts []c16Template
	// T1: one key label
	ts = append(ts, c16Template{id: "label", block: "res", markers: []string{"m_aws", "m_azure", "m_amp", "m_nbsp"},
		mk: func() *schema.BodySchema {
			return refDecl(&schema.BodySchema{Blocks: map[string]*schema.BlockSchema{"res": {
				Labels: []*schema.LabelSchema{{Name: "type", IsDepKey: true, Completable: true}, {Name: "name"}},
				Body:   &schema.BodySchema{Attributes: map[string]*schema.AttributeSchema{"static": {Constraint: schema.LiteralType{Type: cty.String}, IsOptional: true}}},
				DependentBody: map[schema.SchemaKey]*schema.BodySchema{
					depKey([]schema.LabelDependent{lbl(0, "aws")}, nil):   mkMarker("m_aws", true, nil),
					depKey([]schema.LabelDependent{lbl(0, "azure")}, nil): mkMarker("m_azure", false, nil),
					// key values holding characters JSON escapes or Go's %q considers non-printable
					depKey([]schema.LabelDependent{lbl(0, "a&b<c>")}, nil):      mkMarker("m_amp", true, nil),
					depKey([]schema.LabelDependent{lbl(0, "no\u00a0brk")}, nil): mkMarker("m_nbsp", false, nil),
				}}}})
		},
		sels: []c16Sel{
			{labels: []string{"a&b<c>", "n"}, marker: "m_amp", docs: true, keyLabels: []int{0}},
			{labels: []string{"no\u00a0brk", "n"}, marker: "m_nbsp", keyLabels: []int{0}},
			{labels: []string{"aws", "n"}, marker: "m_aws", docs: true, keyLabels: []int{0}},
			{labels: []string{"azure", "n"}, marker: "m_azure", keyLabels: []int{0}},
			{labels: []string{"none", "n"}, unknown: true},
			{labels: []string{"aws"}, marker: "m_aws", docs: true, keyLabels: []int{0}},
		}})
	// T2: two key labels
	ts = append(ts, c16Template{id: "2labels", block: "two", markers: []string{"m_xy", "m_yx"},
		mk: func() *schema.BodySchema {
			return refDecl(&schema.BodySchema{Blocks: map[string]*schema.BlockSchema{"two": {
				Labels: []*schema.LabelSchema{{Name: "a", IsDepKey: true}, {Name: "b", IsDepKey: true}},
				Body:   &schema.BodySchema{},
				DependentBody: map[schema.SchemaKey]*schema.BodySchema{
					depKey([]schema.LabelDependent{lbl(0, "x"), lbl(1, "y")}, nil): mkMarker("m_xy", true, nil),
					depKey([]schema.LabelDependent{lbl(1, "x"), lbl(0, "y")}, nil): mkMarker("m_yx", false, nil),
				}}}})
		},
		sels: []c16Sel{
			{labels: []string{"x", "y"}, marker: "m_xy", docs: true, keyLabels: []int{0, 1}},
			{labels: []string{"y", "x"}, marker: "m_yx", keyLabels: []int{0, 1}},
			{labels: []string{"x", "x"}, unknown: true},
			{labels: []string{"x"}, unknown: true},
		}})
	// T3: attribute keys: string / number / bool literals, reference, combinations (all written orders)
	paddr := lang.Address{lang.RootStep{Name: "p"}, lang.AttrStep{Name: "one"}}
	ts = append(ts, c16Template{id: "attrs", block: "data", markers: []string{"m_k1", "m_num", "m_flag", "m_prov", "m_k1num", "m_all3", "m_neg", "m_frac", "m_false"},
		mk: func() *schema.BodySchema {
			return refDecl(&schema.BodySchema{Blocks: map[string]*schema.BlockSchema{"data": {
				Labels: []*schema.LabelSchema{{Name: "name"}},
				Body: &schema.BodySchema{Attributes: map[string]*schema.AttributeSchema{
					"kind": strKey(),
					"num":  {Constraint: schema.LiteralType{Type: cty.Number}, IsOptional: true, IsDepKey: true},
					"flag": {Constraint: schema.LiteralType{Type: cty.Bool}, IsOptional: true, IsDepKey: true},
					"prov": {Constraint: schema.Reference{OfScopeId: "sp"}, IsOptional: true, IsDepKey: true},
				}},
				DependentBody: map[schema.SchemaKey]*schema.BodySchema{
					depKey(nil, []schema.AttributeDependent{attrDep("kind", cty.StringVal("k1"))}): mkMarker("m_k1", true, nil),
					depKey(nil, []schema.AttributeDependent{attrDep("num", cty.NumberIntVal(1))}):  mkMarker("m_num", false, nil),
					depKey(nil, []schema.AttributeDependent{attrDep("flag", cty.True)}):            mkMarker("m_flag", true, nil),
					// numbers the native syntax writes with an operator (-1 is a negation), fractions, the other bool
					depKey(nil, []schema.AttributeDependent{attrDep("num", cty.NumberIntVal(-1))}):                                                                 mkMarker("m_neg", false, nil),
					depKey(nil, []schema.AttributeDependent{attrDep("num", cty.NumberFloatVal(1.5))}):                                                              mkMarker("m_frac", false, nil),
					depKey(nil, []schema.AttributeDependent{attrDep("flag", cty.False)}):                                                                           mkMarker("m_false", false, nil),
					depKey(nil, []schema.AttributeDependent{attrDepAddr("prov", paddr)}):                                                                           mkMarker("m_prov", true, nil),
					depKey(nil, []schema.AttributeDependent{attrDep("kind", cty.StringVal("k1")), attrDep("num", cty.NumberIntVal(1))}):                            mkMarker("m_k1num", true, nil),
					depKey(nil, []schema.AttributeDependent{attrDep("num", cty.NumberIntVal(1)), attrDep("kind", cty.StringVal("k1")), attrDep("flag", cty.True)}): mkMarker("m_all3", true, nil),
				}}}})
		},
		sels: []c16Sel{
			{labels: []string{"n"}, attrs: []c16Attr{{"kind", `"k1"`, sv("k1")}}, marker: "m_k1", docs: true, keyAttrs: []string{"kind"}},
			{labels: []string{"n"}, attrs: []c16Attr{{"num", `1`, schema.ExpressionValue{Static: cty.NumberIntVal(1)}}}, marker: "m_num", keyAttrs: []string{"num"}},
			{labels: []string{"n"}, attrs: []c16Attr{{"flag", `true`, schema.ExpressionValue{Static: cty.True}}}, marker: "m_flag", docs: true, keyAttrs: []string{"flag"}},
			{labels: []string{"n"}, attrs: []c16Attr{{"prov", `p.one`, schema.ExpressionValue{Address: paddr}}}, marker: "m_prov", docs: true, keyAttrs: []string{"prov"}},
			{labels: []string{"n"}, attrs: []c16Attr{{"kind", `"k1"`, sv("k1")}, {"num", `1`, schema.ExpressionValue{Static: cty.NumberIntVal(1)}}}, marker: "m_k1num", docs: true, keyAttrs: []string{"kind", "num"}},
			{labels: []string{"n"}, attrs: []c16Attr{{"kind", `"k1"`, sv("k1")}, {"num", `1`, schema.ExpressionValue{Static: cty.NumberIntVal(1)}}, {"flag", `true`, schema.ExpressionValue{Static: cty.True}}}, marker: "m_all3", docs: true, keyAttrs: []string{"kind", "num", "flag"}},
			{labels: []string{"n"}, attrs: []c16Attr{{"num", `-1`, schema.ExpressionValue{Static: cty.NumberIntVal(-1)}}}, marker: "m_neg", keyAttrs: []string{"num"}},
			{labels: []string{"n"}, attrs: []c16Attr{{"num", `(-1)`, schema.ExpressionValue{Static: cty.NumberIntVal(-1)}}}, marker: "m_neg", keyAttrs: []string{"num"}},
			{labels: []string{"n"}, attrs: []c16Attr{{"num", `(1)`, schema.ExpressionValue{Static: cty.NumberIntVal(1)}}}, marker: "m_num", keyAttrs: []string{"num"}},
			{labels: []string{"n"}, attrs: []c16Attr{{"num", `1.5`, schema.ExpressionValue{Static: cty.NumberFloatVal(1.5)}}}, marker: "m_frac", keyAttrs: []string{"num"}},
			{labels: []string{"n"}, attrs: []c16Attr{{"flag", `false`, schema.ExpressionValue{Static: cty.False}}}, marker: "m_false", keyAttrs: []string{"flag"}},
			{labels: []string{"n"}, attrs: []c16Attr{{"kind", `"zz"`, sv("zz")}}, unknown: true},
			{labels: []string{"n"}, attrs: []c16Attr{{"kind", `"1"`, sv("1")}}, unknown: true},
			{labels: []string{"n"}, attrs: []c16Attr{{"num", `2`, schema.ExpressionValue{Static: cty.NumberIntVal(2)}}, {"flag", `true`, schema.ExpressionValue{Static: cty.True}}}, unknown: true},
			{labels: []string{"n"}},
		}})
	// T4: default value selects
	ts = append(ts, c16Template{id: "default", block: "b", markers: []string{"m_dflt", "m_other"},
		mk: func() *schema.BodySchema {
			return refDecl(&schema.BodySchema{Blocks: map[string]*schema.BlockSchema{"b": {
				Body: &schema.BodySchema{Attributes: map[string]*schema.AttributeSchema{
					"kind": {Constraint: schema.LiteralType{Type: cty.String}, IsOptional: true, IsDepKey: true, DefaultValue: schema.DefaultValue{Value: cty.StringVal("dflt")}},
				}},
				DependentBody: map[schema.SchemaKey]*schema.BodySchema{
					depKey(nil, []schema.AttributeDependent{attrDep("kind", cty.StringVal("dflt"))}):  mkMarker("m_dflt", true, nil),
					depKey(nil, []schema.AttributeDependent{attrDep("kind", cty.StringVal("other"))}): mkMarker("m_other", false, nil),
				}}}})
		},
		sels: []c16Sel{
			{marker: "m_dflt", docs: true}, // key from the default: no written attribute to attach a link to
			{attrs: []c16Attr{{"kind", `"dflt"`, sv("dflt")}}, marker: "m_dflt", docs: true, keyAttrs: []string{"kind"}},
			{attrs: []c16Attr{{"kind", `"other"`, sv("other")}}, marker: "m_other", keyAttrs: []string{"kind"}},
			{attrs: []c16Attr{{"kind", `"nope"`, sv("nope")}}, unknown: true},
		}})
	// T5: second level keyed by an attribute of the first
	ts = append(ts, c16Template{id: "2level", block: "prov", markers: []string{"m_l1", "m_l2"},
		mk: func() *schema.BodySchema {
			return refDecl(&schema.BodySchema{Blocks: map[string]*schema.BlockSchema{"prov": {
				Labels: []*schema.LabelSchema{{Name: "type", IsDepKey: true}},
				Body:   &schema.BodySchema{},
				DependentBody: map[schema.SchemaKey]*schema.BodySchema{
					depKey([]schema.LabelDependent{lbl(0, "t")}, nil):                                                              mkMarker("m_l1", true, func(b *schema.BodySchema) { b.Attributes["mode"] = strKey() }),
					depKey([]schema.LabelDependent{lbl(0, "t")}, []schema.AttributeDependent{attrDep("mode", cty.StringVal("m"))}): mkMarker("m_l2", true, func(b *schema.BodySchema) { b.Attributes["mode"] = strKey() }),
				}}}})
		},
		sels: []c16Sel{
			{labels: []string{"t"}, marker: "m_l1", docs: true, keyLabels: []int{0}},
			{labels: []string{"t"}, attrs: []c16Attr{{"mode", `"m"`, sv("m")}}, marker: "m_l2", docs: true, keyLabels: []int{0}, keyAttrs: []string{"mode"}},
			// the second level is not found: the first-level body stays in force, its link sits on the keys that selected IT
			{labels: []string{"t"}, attrs: []c16Attr{{"mode", `"zz"`, sv("zz")}}, marker: "m_l1", docs: true, keyLabels: []int{0}, unknown: true},
			{labels: []string{"u"}, unknown: true},
		}})
	// T5b: two levels where the STATIC body declares a key attribute too: the first level is keyed by label + that
	// attribute, the second by label + the key attribute of the first-level body (the static key is not part of it)
	ts = append(ts, c16Template{id: "2level-static-key", block: "prov", markers: []string{"m_s1", "m_s2"},
		mk: func() *schema.BodySchema {
			return refDecl(&schema.BodySchema{Blocks: map[string]*schema.BlockSchema{"prov": {
				Labels: []*schema.LabelSchema{{Name: "type", IsDepKey: true}},
				Body:   &schema.BodySchema{Attributes: map[string]*schema.AttributeSchema{"tier": strKey()}},
				DependentBody: map[schema.SchemaKey]*schema.BodySchema{
					depKey([]schema.LabelDependent{lbl(0, "t")}, []schema.AttributeDependent{attrDep("tier", cty.StringVal("gold"))}): mkMarker("m_s1", true, func(b *schema.BodySchema) { b.Attributes["mode"] = strKey() }),
					depKey([]schema.LabelDependent{lbl(0, "t")}, []schema.AttributeDependent{attrDep("mode", cty.StringVal("m"))}):    mkMarker("m_s2", true, func(b *schema.BodySchema) { b.Attributes["mode"] = strKey() }),
				}}}})
		},
		sels: []c16Sel{
			{labels: []string{"t"}, attrs: []c16Attr{{"tier", `"gold"`, sv("gold")}}, marker: "m_s1", docs: true, keyLabels: []int{0}, keyAttrs: []string{"tier"}, unknown: true}, // (second level not found: partially resolved)
			{labels: []string{"t"}, attrs: []c16Attr{{"tier", `"gold"`, sv("gold")}, {"mode", `"m"`, sv("m")}}, marker: "m_s2", docs: true, keyLabels: []int{0}, keyAttrs: []string{"mode"}},
		}})
	// T6: label and attribute of the static body on one level
	ts = append(ts, c16Template{id: "label+attr", block: "mix", markers: []string{"m_ak1", "m_a"},
		mk: func() *schema.BodySchema {
			return refDecl(&schema.BodySchema{Blocks: map[string]*schema.BlockSchema{"mix": {
				Labels: []*schema.LabelSchema{{Name: "type", IsDepKey: true}},
				Body:   &schema.BodySchema{Attributes: map[string]*schema.AttributeSchema{"kind": strKey()}},
				DependentBody: map[schema.SchemaKey]*schema.BodySchema{
					depKey([]schema.LabelDependent{lbl(0, "a")}, []schema.AttributeDependent{attrDep("kind", cty.StringVal("k1"))}): mkMarker("m_ak1", true, nil),
					depKey([]schema.LabelDependent{lbl(0, "a")}, nil):                                                               mkMarker("m_a", false, nil),
				}}}})
		},
		sels: []c16Sel{
			{labels: []string{"a"}, attrs: []c16Attr{{"kind", `"k1"`, sv("k1")}}, marker: "m_ak1", docs: true, keyLabels: []int{0}, keyAttrs: []string{"kind"}},
			{labels: []string{"a"}, marker: "m_a", keyLabels: []int{0}},
			{labels: []string{"a"}, attrs: []c16Attr{{"kind", `"k2"`, sv("k2")}}, unknown: true},
		}})
	return ts
}

// render one block: labels, key attributes in the given order, then every marker (referring to
// ref.a), or no marker at all (for the completion probe).
func c16Render(t *c16Template, s *c16Sel, order []int, withMarkers bool) string {
	var sb strings.Builder
	if (len(s.labels)+len(order))%2 == 1 {
		// every other world begins with something that is not a token of the body
		sb.WriteString(" ")
	}
	sb.WriteString("decl \"a\" {\n}\n")
	sb.WriteString(t.block)
	for _, l := range s.labels {
		fmt.Fprintf(&sb, " %q", l)
	}
	sb.WriteString(" {\n")
	for _, i := range order {
		fmt.Fprintf(&sb, "  %s = %s\n", s.attrs[i].name, s.attrs[i].text)
	}
	if withMarkers {
		for _, m := range t.markers {
			fmt.Fprintf(&sb, "  %s = ref.a\n", m)
		}
	} else {
		sb.WriteString("  \n")
	}
	sb.WriteString("}\n")
	return sb.String()
}

func c16Marker(t *c16Template, s *c16Sel, order []int, c *report.Collector, l *report.Local) {
	ent := gen.Entry{ID: "M:" + t.id, Mk: t.mk, Family: "struct", Hooks: -1}
	bad := func(clause, feature, detail, text string) {
		c.Add(&report.Violation{Clause: clause, Site: feature + ":" + t.id, Check: "markers", SchemaID: ent.ID, Files: []report.FileSpec{{Path: "/p0", Name: "main.tf", Text: text}},
			Detail: fmt.Sprintf("template %s, selection labels=%v attrs(order %v)=%v -> body %q: %s\nfile:\n%s", t.id, s.labels, order, s.attrs, s.marker, detail, text)})
	}
	text := c16Render(t, s, order, true)
	cs := explore.Case{Entry: &ent, File: "main.tf", Text: text, PosTo: -1}
	w := world.Build(cs.Spec())
	f := w.Ctx(0).Files["main.tf"]
	body := f.Body.(*hclsyntax.Body)
	var blk *hclsyntax.Block
	for _, b := range body.Blocks {
		if b.Type == t.block {
			blk = b
		}
	}
	if blk == nil {
		return
	}
	// bind the reference model to the generator's ground truth
	eff := model.Effective(t.mk().Blocks[t.block], blk)
	_, modelKnows := eff.Attributes[s.marker]
	if (s.marker != "") != (eff.Dep != nil) || (s.marker != "" && !modelKnows) {
		c.Add(&report.Violation{Clause: "harness:model-disagrees-with-generator", Site: t.id, Check: "markers", Detail: fmt.Sprintf("model selects %v, generator expects %q\n%s", eff.Dep != nil, s.marker, text)})
		return
	}
	l.Count("marker_worlds", 1)
	known := func(m string) bool { return m == s.marker }
	src := []byte(text)
	// validation
	rv := run.Call(w, run.Query{Kind: run.ValidateFile, File: "main.tf"})
	l.Count("calls", 1)
	if ds, ok := rv.Val.(hcl.Diagnostics); ok {
		unexp := map[string]bool{}
		for _, d := range ds {
			if k, it := model.ClassifyDiag(d); k == "unexpected-attr" {
				unexp[it] = true
			}
		}
		for _, m := range t.markers {
			want := !known(m) && !s.unknown
			if unexp[m] != want {
				bad("feature-sees-other-schema", "validation", fmt.Sprintf("marker %s unexpected=%v, want %v", m, unexp[m], want), text)
			}
			l.Count("feature_checks", 1)
		}
	}
	// hover, tokens on each marker name
	rt := run.Call(w, run.Query{Kind: run.SemTok, File: "main.tf"})
	l.Count("calls", 1)
	toks, _ := rt.Val.([]lang.SemanticToken)
	rtg := run.Call(w, run.Query{Kind: run.CollectTargets})
	tgs, _ := rtg.Val.(reference.Targets)
	rog := run.Call(w, run.Query{Kind: run.CollectOrigins})
	ogs, _ := rog.Val.(reference.Origins)
	l.Count("calls", 2)
	for _, m := range t.markers {
		a := blk.Body.Attributes[m]
		if a == nil {
			continue
		}
		pos := run.PosAt(src, a.NameRange.Start.Byte+1)
		rh := run.Call(w, run.Query{Kind: run.Hover, File: "main.tf", Pos: pos})
		l.Count("calls", 1)
		hd, _ := rh.Val.(*lang.HoverData)
		gotHover := hd != nil && strings.Contains(hd.Content.Value, "marker "+m)
		if gotHover != known(m) {
			bad("feature-sees-other-schema", "hover", fmt.Sprintf("hover on %s describes it=%v, want %v (content %q)", m, gotHover, known(m), func() string {
				if hd != nil {
					return hd.Content.Value
				}
				return ""
			}()), text)
		}
		hasTok := false
		for _, tk := range toks {
			if tk.Range == a.NameRange && tk.Type == lang.TokenAttrName {
				for _, md := range tk.Modifiers {
					if string(md) == "mod-"+m {
						hasTok = true
					}
				}
			}
		}
		if hasTok != known(m) {
			bad("feature-sees-other-schema", "tokens", fmt.Sprintf("token with modifier mod-%s present=%v, want %v", m, hasTok, known(m)), text)
		}
		hasTarget := false
		for _, tg := range tgs {
			if tg.Addr.String() == "mk."+m {
				hasTarget = true
			}
		}
		if hasTarget != known(m) {
			bad("feature-sees-other-schema", "targets", fmt.Sprintf("target mk.%s present=%v, want %v", m, hasTarget, known(m)), text)
		}
		hasOrigin := false
		for _, o := range ogs {
			if o.OriginRange() == a.Expr.Range() {
				hasOrigin = true
			}
		}
		if hasOrigin != known(m) {
			bad("feature-sees-other-schema", "origins", fmt.Sprintf("origin for the value of %s present=%v, want %v", m, hasOrigin, known(m)), text)
		}
		l.Count("feature_checks", 4)
	}
	// links: exactly the selecting labels / written key attribute values, iff the body has a link
	rl := run.Call(w, run.Query{Kind: run.Links, File: "main.tf"})
	l.Count("calls", 1)
	links, _ := rl.Val.([]lang.Link)
	var want []string
	if s.docs && s.marker != "" {
		for _, i := range s.keyLabels {
			if i < len(blk.LabelRanges) {
				want = append(want, fmtRange(blk.LabelRanges[i]))
			}
		}
		for _, n := range s.keyAttrs {
			if a, ok := blk.Body.Attributes[n]; ok {
				want = append(want, fmtRange(a.Expr.Range()))
			}
		}
	}
	var got []string
	for _, lk := range links {
		got = append(got, fmtRange(lk.Range))
		if s.marker != "" && !strings.Contains(lk.URI, s.marker) {
			bad("link:wrong-target", "links", fmt.Sprintf("link %s does not point at the selected body's docs", lk.URI), text)
		}
	}
	sort.Strings(want)
	sort.Strings(got)
	if fmt.Sprint(want) != fmt.Sprint(got) {
		bad("link:attachment", "links", fmt.Sprintf("links at %v, want exactly the selecting labels/attribute values %v", got, want), text)
	}
	l.Count("feature_checks", 1)
	// completion on a blank line of the same block without markers
	text2 := c16Render(t, s, order, false)
	cs2 := explore.Case{Entry: &ent, File: "main.tf", Text: text2, PosTo: -1}
	w2 := world.Build(cs2.Spec())
	blank := strings.Index(text2, "  \n}") + 2
	rc := run.Call(w2, run.Query{Kind: run.Completion, File: "main.tf", Pos: run.PosAt([]byte(text2), blank)})
	l.Count("calls", 1)
	cands, _ := rc.Val.(lang.Candidates)
	for _, m := range t.markers {
		off := false
		for _, cd := range cands.List {
			if cd.Label == m {
				off = true
			}
		}
		if off != known(m) {
			bad("feature-sees-other-schema", "completion", fmt.Sprintf("marker %s offered=%v, want %v", m, off, known(m)), text2)
		}
		l.Count("feature_checks", 1)
	}
	l.Count("nontrivial", 1)
	l.Outcome(text)
}

// C16: dependent-body selection is canonical.
func C16(tier string) int {
	c := report.NewCollector("C16")
	l := report.NewLocal()
	c16KeyAlgebra(c, l)
	c.Merge(l)
	ts := c16Templates()
	type job struct {
		t     *c16Template
		s     *c16Sel
		order []int
	}
	var jobs []job
	for i := range ts {
		for j := range ts[i].sels {
			for _, p := range permutations(len(ts[i].sels[j].attrs)) {
				jobs = append(jobs, job{&ts[i], &ts[i].sels[j], p})
			}
		}
	}
	explore.ParallelEach(len(jobs), c, explore.Deadline(tier), func(i int, l *report.Local) {
		c16Marker(jobs[i].t, jobs[i].s, jobs[i].order, c, l)
	})
	if len(jobs) > 5 {
		c.Sample(map[string]any{"marker_world": c16Render(jobs[5].t, jobs[5].s, jobs[5].order, true), "selected_marker": jobs[5].s.marker})
	}
	return c.Finish(report.FinishOpts{
		Tier: tier, Level: "exploration", EvalCounter: "calls",
		Rule:         "(1) key algebra: every assignment of {absent, a, b, \"\"} to label indexes 0..2 and of {absent, \"a\", \"b\", \"1\", \"true\", 1, 2, true, r.s, r} to attribute names x,y,z (64 x 1000 sets) x ALL listing orders: one key per set, no two sets share a key. (2) marker worlds: 6 block templates (key label, two key labels, attribute keys of every value form, default value, second level, label+attribute) x every selection (each body, unresolved, missing label) x every written order of the key attributes; every candidate body carries a unique marker attribute; oracle: the body the generator selected is the one validation, hover, tokens, targets, origins, completion see (marker known iff selected) and links attach to exactly the selecting labels/attribute values iff the body has a link. The reference model (model.Effective) must agree with the generator's ground truth (else harness error).",
		BiteCounters: []string{"key_permutations", "feature_checks", "marker_worlds"},
	})
}
