package props

import (
	"fmt"
	"reflect"
	"strings"
	"unsafe"

	"github.com/hashicorp/hcl-lang/lang"
	"github.com/hashicorp/hcl-lang/schema"
	"github.com/hashicorp/hcl/v2"
	"github.com/zclconf/go-cty/cty"
	"github.com/zclconf/go-cty/cty/function"

	"verif/internal/gen"
	"verif/internal/report"
	"verif/internal/run"
)

// E6: reflective enumerator of schema values by field-population pattern.

var (
	tConstraint = reflect.TypeOf((*schema.Constraint)(nil)).Elem()
	tDefault    = reflect.TypeOf((*schema.Default)(nil)).Elem()
	tAddrStep   = reflect.TypeOf((*schema.AddrStep)(nil)).Elem()
	tLangStep   = reflect.TypeOf((*lang.AddressStep)(nil)).Elem()
	tCtyType    = reflect.TypeOf(cty.Type{})
	tCtyValue   = reflect.TypeOf(cty.Value{})
	tSchemaAddr = reflect.TypeOf(schema.Address{})
	tLangAddr   = reflect.TypeOf(lang.Address{})
	tHclRange   = reflect.TypeOf(hcl.Range{})
	tSchemaKey  = reflect.TypeOf(schema.SchemaKey(""))
)

type e6 struct {
	unpopulable []string
}

// menu returns the non-zero values of a type at the given depth budget (simplest first).
// The zero value is always implicitly part of a field's alphabet.
func (g *e6) menu(t reflect.Type, depth int, where string) []reflect.Value {
	switch t {
	case tCtyType:
		return vals(cty.String, cty.List(cty.String), cty.Object(map[string]cty.Type{"a": cty.Number}))
	case tCtyValue:
		return vals(cty.StringVal("x"), cty.NumberIntVal(3), cty.ListVal([]cty.Value{cty.True}))
	case tSchemaAddr:
		return vals(schema.Address{}, schema.Address{schema.StaticStep{Name: "s"}}, schema.Address{schema.StaticStep{Name: "s"}, schema.LabelStep{Index: 1}, schema.AttrNameStep{}, schema.AttrValueStep{Name: "a", IsOptional: true}})
	case tLangAddr:
		return vals(lang.Address{}, lang.Address{lang.RootStep{Name: "r"}}, lang.Address{lang.RootStep{Name: "r"}, lang.AttrStep{Name: "a"}, lang.IndexStep{Key: cty.NumberIntVal(0)}})
	case tHclRange:
		return vals(hcl.Range{Filename: "f.tf", Start: hcl.Pos{Line: 1, Column: 1}, End: hcl.Pos{Line: 1, Column: 4, Byte: 3}})
	case tSchemaKey:
		return vals(schema.SchemaKey("k1"), schema.SchemaKey(`{"labels":[{"index":0,"value":"a"}]}`))
	}
	switch t.Kind() {
	case reflect.Bool:
		return vals(true)
	case reflect.String:
		return []reflect.Value{reflect.ValueOf("s").Convert(t), reflect.ValueOf("other text").Convert(t)}
	case reflect.Int, reflect.Int8, reflect.Int16, reflect.Int32, reflect.Int64:
		return []reflect.Value{reflect.ValueOf(2).Convert(t)}
	case reflect.Uint, reflect.Uint8, reflect.Uint16, reflect.Uint32, reflect.Uint64:
		return []reflect.Value{reflect.ValueOf(uint(2)).Convert(t)}
	case reflect.Interface:
		switch t {
		case tConstraint:
			var out []reflect.Value
			cs := gen.Constraints(1)
			if depth <= 1 {
				cs = gen.Leaves()
			}
			for _, c := range cs {
				v := c.Mk()
				if v == nil {
					continue
				}
				rv := reflect.New(t).Elem()
				rv.Set(reflect.ValueOf(v))
				out = append(out, rv)
			}
			return out
		case tDefault:
			rv := reflect.New(t).Elem()
			rv.Set(reflect.ValueOf(schema.DefaultValue{Value: cty.StringVal("d")}))
			return []reflect.Value{rv}
		case tAddrStep:
			var out []reflect.Value
			for _, s := range []schema.AddrStep{schema.StaticStep{Name: "n"}, schema.LabelStep{Index: 1}, schema.AttrNameStep{}, schema.AttrValueStep{Name: "a"}} {
				rv := reflect.New(t).Elem()
				rv.Set(reflect.ValueOf(s))
				out = append(out, rv)
			}
			return out
		case tLangStep:
			rv := reflect.New(t).Elem()
			rv.Set(reflect.ValueOf(lang.RootStep{Name: "r"}))
			return []reflect.Value{rv}
		}
		g.unpopulable = append(g.unpopulable, where+": interface "+t.String())
		return nil
	case reflect.Ptr:
		if depth <= 0 {
			// budget exhausted: only the empty struct behind the pointer
			return []reflect.Value{reflect.New(t.Elem())}
		}
		var out []reflect.Value
		for _, sv := range g.structValues(t.Elem(), depth-1, where, depth >= 2) {
			p := reflect.New(t.Elem())
			p.Elem().Set(sv)
			out = append(out, p)
		}
		return out
	case reflect.Struct:
		return g.structValues(t, depth-1, where, depth >= 2)[1:]
	case reflect.Slice:
		et := t.Elem()
		empty := reflect.MakeSlice(t, 0, 0)
		em := g.menu(et, depth-1, where+"[]")
		if len(em) == 0 {
			return []reflect.Value{empty}
		}
		one := reflect.MakeSlice(t, 1, 1)
		one.Index(0).Set(em[len(em)-1])
		two := reflect.MakeSlice(t, 2, 4) // spare capacity on purpose
		two.Index(0).Set(em[0])
		two.Index(1).Set(em[len(em)-1])
		if len(em) >= 2 {
			// the same two elements in the opposite order (an order-normalising copy shows on one of the two)
			rev := reflect.MakeSlice(t, 2, 2)
			rev.Index(0).Set(deepClone(em[len(em)-1]))
			rev.Index(1).Set(deepClone(em[0]))
			return []reflect.Value{empty, one, two, rev}
		}
		return []reflect.Value{empty, one, two}
	case reflect.Map:
		kt, et := t.Key(), t.Elem()
		empty := reflect.MakeMap(t)
		km := g.menu(kt, 0, where+"[key]")
		em := g.menu(et, depth-1, where+"[]")
		if len(km) == 0 || len(em) == 0 {
			return []reflect.Value{empty}
		}
		out := []reflect.Value{empty}
		// one entry per element value (so nested one-hots are reached), then a two-entry map
		for _, e := range em {
			m := reflect.MakeMap(t)
			m.SetMapIndex(km[0], e)
			out = append(out, m)
			if depth < 3 {
				break
			}
		}
		if len(km) > 1 {
			m := reflect.MakeMap(t)
			m.SetMapIndex(km[0], em[0])
			m.SetMapIndex(km[1], em[len(em)-1])
			out = append(out, m)
			// one node registered under two keys (schemas share sub-schemas freely): neither entry of the copy may
			// be the original's node
			if et.Kind() == reflect.Ptr {
				shared := em[len(em)-1]
				if !shared.IsNil() {
					m2 := reflect.MakeMap(t)
					m2.SetMapIndex(km[0], shared)
					m2.SetMapIndex(km[1], shared)
					out = append(out, m2)
				}
			}
		}
		return out
	}
	g.unpopulable = append(g.unpopulable, where+": kind "+t.Kind().String()+" ("+t.String()+")")
	return nil
}

func vals(xs ...any) []reflect.Value {
	out := make([]reflect.Value, len(xs))
	for i, x := range xs {
		out[i] = reflect.ValueOf(x)
	}
	return out
}

// structValues: zero; one-hot per field per menu value; all fields populated (first and last
// menu values). When oneHot is false only {zero, all-populated} are produced.
func (g *e6) structValues(t reflect.Type, depth int, where string, oneHot bool) []reflect.Value {
	zero := reflect.New(t).Elem()
	out := []reflect.Value{zero}
	if t.NumField() == 0 {
		return out
	}
	menus := make([][]reflect.Value, t.NumField())
	for i := 0; i < t.NumField(); i++ {
		f := t.Field(i)
		if !f.IsExported() {
			g.unpopulable = append(g.unpopulable, where+"."+t.Name()+"."+f.Name+": unexported field")
			continue
		}
		menus[i] = g.menu(f.Type, depth, where+"."+t.Name()+"."+f.Name)
		if len(menus[i]) == 0 {
			g.unpopulable = append(g.unpopulable, where+"."+t.Name()+"."+f.Name+": no non-zero value could be generated")
		}
	}
	if oneHot {
		for i, m := range menus {
			for _, v := range m {
				s := reflect.New(t).Elem()
				s.Field(i).Set(v)
				out = append(out, s)
			}
		}
	}
	for _, pick := range []int{0, -1} {
		s := reflect.New(t).Elem()
		for i, m := range menus {
			if len(m) == 0 {
				continue
			}
			if pick == 0 {
				s.Field(i).Set(m[0])
			} else {
				s.Field(i).Set(m[len(m)-1])
			}
		}
		out = append(out, s)
	}
	return out
}

// identities collects the identity of every mutable container reachable from v: maps, slice
// backing arrays, pointers to structs. Traversal stops at the statement's immutable categories
// (constraints below the root, addresses, cty types/values, strings).
func identities(v reflect.Value, root bool, out map[uintptr]string, path string) {
	if !v.IsValid() {
		return
	}
	t := v.Type()
	if t == tCtyType || t == tCtyValue || t == tSchemaAddr || t == tLangAddr {
		return
	}
	switch v.Kind() {
	case reflect.Interface:
		if v.IsNil() {
			return
		}
		if t == tConstraint && !root {
			return
		}
		if t == tDefault || t == tAddrStep || t == tLangStep {
			return
		}
		identities(v.Elem(), root, out, path)
	case reflect.Ptr:
		if v.IsNil() {
			return
		}
		if v.Elem().Kind() == reflect.Struct && v.Elem().Type().Size() > 0 {
			out[v.Pointer()] = path
		}
		identities(v.Elem(), false, out, path)
	case reflect.Struct:
		for i := 0; i < v.NumField(); i++ {
			f := v.Field(i)
			if !t.Field(i).IsExported() {
				if f.CanAddr() {
					f = reflect.NewAt(f.Type(), unsafe.Pointer(f.UnsafeAddr())).Elem()
				} else {
					continue
				}
			}
			identities(f, false, out, path+"."+t.Field(i).Name)
		}
	case reflect.Slice:
		if v.IsNil() {
			return
		}
		if v.Cap() > 0 {
			out[v.Pointer()] = path
		}
		for i := 0; i < v.Len(); i++ {
			identities(v.Index(i), false, out, fmt.Sprintf("%s[%d]", path, i))
		}
	case reflect.Map:
		if v.IsNil() {
			return
		}
		out[v.Pointer()] = path
		it := v.MapRange()
		for it.Next() {
			identities(it.Value(), false, out, fmt.Sprintf("%s[%v]", path, it.Key()))
		}
	}
}

// mutate changes every mutable container reachable from v in place (add a map entry, replace a
// slice element, flip a field of a pointed-to struct). Returns the number of mutations made.
func mutate(v reflect.Value, root bool, g *e6) int {
	if !v.IsValid() {
		return 0
	}
	t := v.Type()
	if t == tCtyType || t == tCtyValue || t == tSchemaAddr || t == tLangAddr {
		return 0
	}
	n := 0
	switch v.Kind() {
	case reflect.Interface:
		if v.IsNil() || (t == tConstraint && !root) || t == tDefault || t == tAddrStep || t == tLangStep {
			return 0
		}
		// interface payloads are not addressable: mutate reachable containers only
		return mutate(v.Elem(), root, g)
	case reflect.Ptr:
		if v.IsNil() {
			return 0
		}
		e := v.Elem()
		if e.Kind() == reflect.Struct {
			// recurse first, then flip a scalar field
			n += mutate(e, false, g)
			for i := 0; i < e.NumField(); i++ {
				f := e.Field(i)
				if !f.CanSet() {
					continue
				}
				switch f.Kind() {
				case reflect.Bool:
					f.SetBool(!f.Bool())
					return n + 1
				case reflect.String:
					f.SetString(f.String() + "~mutated")
					return n + 1
				case reflect.Uint64, reflect.Uint:
					f.SetUint(f.Uint() + 7)
					return n + 1
				}
			}
			return n
		}
		return mutate(e, false, g)
	case reflect.Struct:
		for i := 0; i < v.NumField(); i++ {
			if t.Field(i).IsExported() {
				n += mutate(v.Field(i), false, g)
			}
		}
	case reflect.Slice:
		if v.IsNil() || v.Len() == 0 {
			return 0
		}
		for i := 0; i < v.Len(); i++ {
			n += mutate(v.Index(i), false, g)
		}
		// replace element 0 by the zero value / another value
		if v.Index(0).CanSet() {
			alt := g.menu(t.Elem(), 0, "mutate")
			nv := reflect.Zero(t.Elem())
			if len(alt) > 0 && reflect.DeepEqual(v.Index(0).Interface(), nv.Interface()) {
				nv = alt[0]
			}
			v.Index(0).Set(nv)
			n++
		}
	case reflect.Map:
		if v.IsNil() {
			return 0
		}
		it := v.MapRange()
		for it.Next() {
			n += mutate(it.Value(), false, g)
		}
		km := g.menu(t.Key(), 0, "mutate")
		if len(km) > 0 {
			nk := reflect.ValueOf("zz-added").Convert(t.Key())
			v.SetMapIndex(nk, reflect.Zero(t.Elem()))
			// remove one existing entry as well
			for _, k := range v.MapKeys() {
				if k.Interface() != nk.Interface() {
					v.SetMapIndex(k, reflect.Value{})
					break
				}
			}
			n++
		}
	}
	return n
}

// deepClone copies a generated value so that items never share structure with the generator's
// menus (the mutation probes would otherwise corrupt later items).
func deepClone(v reflect.Value) reflect.Value {
	if !v.IsValid() {
		return v
	}
	t := v.Type()
	if t == tCtyType || t == tCtyValue {
		return v
	}
	switch v.Kind() {
	case reflect.Ptr:
		if v.IsNil() {
			return v
		}
		n := reflect.New(t.Elem())
		n.Elem().Set(deepClone(v.Elem()))
		return n
	case reflect.Interface:
		if v.IsNil() {
			return v
		}
		n := reflect.New(t).Elem()
		n.Set(deepClone(v.Elem()))
		return n
	case reflect.Struct:
		n := reflect.New(t).Elem()
		n.Set(v)
		for i := 0; i < v.NumField(); i++ {
			if t.Field(i).IsExported() {
				n.Field(i).Set(deepClone(v.Field(i)))
			}
		}
		return n
	case reflect.Slice:
		if v.IsNil() {
			return v
		}
		n := reflect.MakeSlice(t, v.Len(), v.Cap())
		for i := 0; i < v.Len(); i++ {
			n.Index(i).Set(deepClone(v.Index(i)))
		}
		return n
	case reflect.Map:
		if v.IsNil() {
			return v
		}
		n := reflect.MakeMapWithSize(t, v.Len())
		it := v.MapRange()
		for it.Next() {
			n.SetMapIndex(it.Key(), deepClone(it.Value()))
		}
		return n
	}
	return v
}

func callCopy(v reflect.Value) (res reflect.Value, p *run.PanicInfo) {
	p = run.SafeCall(func() {
		m := v.MethodByName("Copy")
		res = m.Call(nil)[0]
	})
	return
}

// C17: copying a schema value yields an equal, fully independent value.
func C17(tier string) int {
	c := report.NewCollector("C17")
	l := report.NewLocal()
	depth := 2
	if tier == "thorough" {
		depth = 3
	}
	g := &e6{}
	roots := []reflect.Type{
		reflect.TypeOf(&schema.BodySchema{}), reflect.TypeOf(&schema.BlockSchema{}), reflect.TypeOf(&schema.AttributeSchema{}),
		reflect.TypeOf(&schema.LabelSchema{}), reflect.TypeOf(&schema.BlockAddrSchema{}), reflect.TypeOf(&schema.AttributeAddrSchema{}),
		reflect.TypeOf(&schema.BlockAsTypeOf{}), reflect.TypeOf(&schema.BodyExtensions{}), reflect.TypeOf(&schema.DocsLink{}),
		reflect.TypeOf(&schema.Target{}), reflect.TypeOf(&schema.PathTarget{}), reflect.TypeOf(schema.ImpliedOrigin{}),
		reflect.TypeOf(&schema.Targetable{}), reflect.TypeOf(&schema.FunctionSignature{}), reflect.TypeOf(schema.Address{}),
		reflect.TypeOf(&schema.ReferenceAddrSchema{}), reflect.TypeOf(schema.ObjectAttributes{}),
		reflect.TypeOf(lang.SemanticTokenModifiers{}), reflect.TypeOf(lang.CompletionHooks{}),
	}
	// every struct type the roots can reach must be populated field by field
	type item struct {
		v    reflect.Value
		desc string
		// aliased: the value registers one node in several places on purpose (kept as built: cloning would
		// separate the places)
		aliased bool
	}
	var items []item
	for _, rt := range roots {
		var vs []reflect.Value
		switch rt.Kind() {
		case reflect.Ptr:
			for _, sv := range g.structValues(rt.Elem(), depth, rt.String(), true) {
				p := reflect.New(rt.Elem())
				p.Elem().Set(sv)
				vs = append(vs, p)
			}
			if rt != reflect.TypeOf(&schema.Targetable{}) && rt != reflect.TypeOf(&schema.FunctionSignature{}) {
				vs = append(vs, reflect.Zero(rt)) // nil receiver where Copy() documents nil-safety
			}
		case reflect.Struct:
			vs = g.structValues(rt, depth, rt.String(), true)
		default:
			vs = append([]reflect.Value{reflect.Zero(rt)}, g.menu(rt, depth, rt.String())...)
			if rt == reflect.TypeOf(schema.Address{}) {
				vs = append(vs, g.menu(tSchemaAddr, 0, "")...)
			}
		}
		for i, v := range vs {
			items = append(items, item{v: v, desc: fmt.Sprintf("%s#%d", rt.String(), i)})
		}
	}
	// wide containers: sizes around the thresholds at which an implementation may change regime (chunking, parallel
	// copies, map growth)
	for _, n := range []int{63, 64, 65, 66, 67, 130} {
		bs := &schema.BlockSchema{Labels: []*schema.LabelSchema{{Name: "type", IsDepKey: true}}, DependentBody: map[schema.SchemaKey]*schema.BodySchema{}}
		body := &schema.BodySchema{Attributes: map[string]*schema.AttributeSchema{}, Blocks: map[string]*schema.BlockSchema{}}
		oa := schema.ObjectAttributes{}
		fs := &schema.FunctionSignature{ReturnType: cty.String}
		tg := &schema.Targetable{Address: lang.Address{lang.RootStep{Name: "t"}}}
		for i := 0; i < n; i++ {
			name := fmt.Sprintf("n%03d", i)
			bs.DependentBody[schema.NewSchemaKey(schema.DependencyKeys{Labels: []schema.LabelDependent{{Index: 0, Value: name}}})] = &schema.BodySchema{Detail: name}
			body.Attributes[name] = &schema.AttributeSchema{Constraint: schema.LiteralType{Type: cty.String}, IsOptional: true, Description: lang.Markdown(name)}
			body.Blocks[name] = &schema.BlockSchema{Description: lang.Markdown(name)}
			oa[name] = &schema.AttributeSchema{Constraint: schema.LiteralType{Type: cty.String}, IsOptional: true}
			fs.Params = append(fs.Params, function.Parameter{Name: name, Type: cty.String})
			tg.NestedTargetables = append(tg.NestedTargetables, &schema.Targetable{Address: lang.Address{lang.RootStep{Name: "t"}, lang.AttrStep{Name: name}}, AsType: cty.String})
		}
		for _, v := range []any{bs, body, oa, fs, tg} {
			items = append(items, item{v: reflect.ValueOf(v), desc: fmt.Sprintf("wide %T (%d entries)", v, n)})
		}
	}
	// constraints as roots: the whole universe (depth 2 in thorough)
	cdepth := 1
	if tier == "thorough" {
		cdepth = 2
	}
	for _, nc := range gen.Constraints(cdepth) {
		cv := nc.Mk()
		if cv == nil {
			continue
		}
		iv := reflect.New(tConstraint).Elem()
		iv.Set(reflect.ValueOf(cv))
		items = append(items, item{v: iv, desc: "Constraint " + nc.Name})
	}
	// constraint structs with every field populated (reflective, future fields included)
	for _, ct := range []reflect.Type{reflect.TypeOf(schema.AnyExpression{}), reflect.TypeOf(schema.Keyword{}), reflect.TypeOf(schema.List{}),
		reflect.TypeOf(schema.LiteralType{}), reflect.TypeOf(schema.LiteralValue{}), reflect.TypeOf(schema.Map{}), reflect.TypeOf(schema.Object{}),
		reflect.TypeOf(schema.Reference{}), reflect.TypeOf(schema.Set{}), reflect.TypeOf(schema.Tuple{}), reflect.TypeOf(schema.TypeDeclaration{})} {
		for i, sv := range g.structValues(ct, 2, ct.String(), true) {
			if ct == reflect.TypeOf(schema.Tuple{}) || ct == reflect.TypeOf(schema.Object{}) {
				// nil elements inside Elems / Attributes are not schema values the package accepts
				if hasNilConstraintElem(sv) {
					continue
				}
			}
			iv := reflect.New(tConstraint).Elem()
			iv.Set(sv)
			items = append(items, item{v: iv, desc: fmt.Sprintf("%s#%d", ct.String(), i)})
		}
	}
	// one node registered in several places (schemas share sub-schemas freely): no place of the copy may hold
	// the original's node
	{
		body := func() *schema.BodySchema {
			return &schema.BodySchema{Attributes: map[string]*schema.AttributeSchema{"a": {IsOptional: true}}, Blocks: map[string]*schema.BlockSchema{"n": {Body: &schema.BodySchema{}}}}
		}
		b1 := body()
		items = append(items, item{reflect.ValueOf(&schema.BlockSchema{Body: &schema.BodySchema{}, DependentBody: map[schema.SchemaKey]*schema.BodySchema{"k1": b1, "k2": b1}}), "aliased: one dependent body under two keys", true})
		b2, b3 := body(), body()
		items = append(items, item{reflect.ValueOf(&schema.BlockSchema{DependentBody: map[schema.SchemaKey]*schema.BodySchema{"k1": b2, "k2": b2, "k3": b3, "k4": b2}}), "aliased: one dependent body under three keys, another under one", true})
		blk := &schema.BlockSchema{Body: body()}
		items = append(items, item{reflect.ValueOf(&schema.BodySchema{Blocks: map[string]*schema.BlockSchema{"x": blk, "y": blk}}), "aliased: one block schema under two types", true})
		at := &schema.AttributeSchema{IsOptional: true, Address: &schema.AttributeAddrSchema{Steps: schema.Address{schema.AttrNameStep{}}}}
		items = append(items, item{reflect.ValueOf(&schema.BodySchema{Attributes: map[string]*schema.AttributeSchema{"x": at, "y": at}}), "aliased: one attribute schema under two names", true})
		tb := &schema.Targetable{Address: lang.Address{lang.RootStep{Name: "t"}}, NestedTargetables: schema.Targetables{{Address: lang.Address{lang.RootStep{Name: "t"}, lang.AttrStep{Name: "n"}}}}}
		items = append(items, item{reflect.ValueOf(&schema.BodySchema{TargetableAs: schema.Targetables{tb, tb}}), "aliased: one targetable listed twice", true})
		both := body()
		items = append(items, item{reflect.ValueOf(&schema.BlockSchema{Body: both, DependentBody: map[schema.SchemaKey]*schema.BodySchema{"k": both}}), "aliased: the static body is also a dependent body", true})
	}
	if len(g.unpopulable) > 0 {
		seen := map[string]bool{}
		for _, u := range g.unpopulable {
			if !seen[u] {
				seen[u] = true
				c.Add(&report.Violation{Clause: "generator:unpopulable-field", Site: u, Check: "e6",
					Detail: "the reflective enumerator cannot populate " + u + ": a field was added that this check does not know how to exercise"})
			}
		}
	}
	for _, it := range items {
		l.Count("values", 1)
		orig := it.v
		if !it.aliased {
			orig = deepClone(it.v)
		}
		before := run.Canon(orig.Interface())
		cp, p := callCopy(orig)
		l.Count("calls", 1)
		add := func(clause, site, detail string) {
			c.Add(&report.Violation{Clause: clause, Site: site, Check: "e6", Detail: fmt.Sprintf("%s: %s\nvalue: %s", it.desc, detail, trunc(before, 700))})
		}
		tn := typeName(orig)
		if p != nil {
			add("copy:panic:"+p.Class, p.Site, "Copy() panicked: "+p.Value)
			continue
		}
		after := run.Canon(cp.Interface())
		if after != before {
			add("copy:not-equal", tn+":"+firstDiffField(before, after), fmt.Sprintf("copy differs from original\n orig: %s\n copy: %s", trunc(before, 500), trunc(after, 500)))
		}
		if run.Canon(orig.Interface()) != before {
			add("copy:mutated-original", tn, "Copy() changed its receiver")
		}
		// (3) no shared mutable container
		oi, ci := map[uintptr]string{}, map[uintptr]string{}
		identities(orig, true, oi, "")
		identities(cp, true, ci, "")
		for id, where := range ci {
			if ow, ok := oi[id]; ok {
				add("copy:shared-container", tn+":"+stripIdx(where), fmt.Sprintf("copy%s and original%s are the same container", where, ow))
				break
			}
		}
		if len(oi) > 0 {
			l.Count("nontrivial", 1)
			l.Outcome(before)
			l.Count("containers_compared", int64(len(ci)))
		}
		// (4) mutation probes both ways
		cp2, _ := callCopy(orig)
		if cp2.IsValid() {
			n := mutate(cp2, true, g)
			l.Count("mutations", int64(n))
			if n > 0 && run.Canon(orig.Interface()) != before {
				add("copy:mutation-leaks-to-original", tn, "mutating the copy changed the original")
			}
		}
		cp3, _ := callCopy(orig)
		if cp3.IsValid() {
			snap := run.Canon(cp3.Interface())
			n := mutate(orig, true, g)
			l.Count("mutations", int64(n))
			if n > 0 && run.Canon(cp3.Interface()) != snap {
				add("copy:mutation-leaks-to-copy", tn, "mutating the original changed the copy")
			}
		}
		if l.Counters["values"]%400 == 1 {
			c.Sample(map[string]any{"value": it.desc, "canonical": trunc(before, 300)})
		}
	}
	c.Merge(l)
	return c.Finish(report.FinishOpts{
		Tier: tier, Level: "exploration", EvalCounter: "calls",
		Rule:         fmt.Sprintf("E6: for every type with Copy() in schema/lang (found by listing, fields found by reflection): zero value, one-hot per field per menu value, all fields populated, nil/empty/1/2-element containers, nested nodes to depth %d; oracle: no panic, canonical deep equality incl. unexported fields (nil==empty), no shared map/slice backing array/struct pointer (stopping at constraints below the root, addresses, cty), mutation probes both ways; a struct field the generator cannot populate is reported; non-trivial = value has at least one mutable container", depth),
		Assumptions:  []string{"nil elements inside Tuple.Elems / OneOf / ObjectAttributes are not generated (not schema values the package accepts)", "nil receivers only for Copy() methods that test for nil"},
		BiteCounters: []string{"values", "containers_compared", "mutations"},
	})
}

func hasNilConstraintElem(v reflect.Value) bool {
	switch x := v.Interface().(type) {
	case schema.Tuple:
		for _, e := range x.Elems {
			if e == nil {
				return true
			}
		}
	case schema.Object:
		for _, a := range x.Attributes {
			if a == nil {
				return true
			}
		}
	}
	return false
}

func typeName(v reflect.Value) string {
	if v.Kind() == reflect.Interface && !v.IsNil() {
		return v.Elem().Type().String()
	}
	return v.Type().String()
}

func stripIdx(s string) string { return reIndex.ReplaceAllString(s, "[]") }

// firstDiffField names the struct field at which two canonical forms first differ.
func firstDiffField(a, b string) string {
	n := len(a)
	if len(b) < n {
		n = len(b)
	}
	i := 0
	for i < n && a[i] == b[i] {
		i++
	}
	// walk back to the nearest "Name:" token
	j := strings.LastIndex(a[:i], ":")
	if j < 0 {
		return "?"
	}
	k := j
	for k > 0 && (a[k-1] == '_' || a[k-1] >= 'A' && a[k-1] <= 'Z' || a[k-1] >= 'a' && a[k-1] <= 'z' || a[k-1] >= '0' && a[k-1] <= '9') {
		k--
	}
	return a[k:j]
}

var _ = function.Parameter{}
