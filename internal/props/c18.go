package props

import (
	"bytes"
	"fmt"
	"sort"
	"strings"

	"github.com/hashicorp/hcl/v2"
	"github.com/hashicorp/hcl/v2/hclsyntax"

	"verif/internal/explore"
	"verif/internal/report"
	"verif/internal/run"
	"verif/internal/world"
)

// inserted line menus
func c18Insertions(tier string) []string {
	ins := []string{"\n", "# c\n", "// c\n", "# ü€ multi-byte\n", "\n\n", "# one\n# two\n",
		// an insertion larger than any look-behind window a query might use (pushes the cursor beyond 4 KiB)
		"# " + strings.Repeat("long ", 900) + "\n"}
	if tier == "thorough" {
		ins = append(ins, "/* c */\n", "\n# x\n", "  \n", "#\n", "// é 👍\n\n")
	}
	return ins
}

// insertion points: before each top-level item (its line start) and after the last one.
func c18Points(text string) []int {
	f, _ := hclsyntax.ParseConfig([]byte(text), "main.tf", hcl.InitialPos)
	if f == nil {
		return nil
	}
	body, ok := f.Body.(*hclsyntax.Body)
	if !ok {
		return nil
	}
	// the beginning of the file always (what stands there need not be an item yet: a name being typed)
	set := map[int]bool{0: true}
	add := func(r hcl.Range) {
		// only items that start a line
		b := r.Start.Byte
		if b == 0 || (b <= len(text) && text[b-1] == '\n') {
			set[b] = true
		}
	}
	for _, a := range body.Attributes {
		add(a.SrcRange)
	}
	for _, b := range body.Blocks {
		add(b.Range())
	}
	if len(text) == 0 || text[len(text)-1] == '\n' {
		set[len(text)] = true
	}
	var out []int
	for p := range set {
		out = append(out, p)
	}
	sort.Ints(out)
	return out
}

// lexPremise: the translated file lexes to the original token sequence (shifted) plus
// newline/comment tokens inside the inserted region.
func lexPremise(a, b string, ip, n, lines int) bool {
	ta, _ := hclsyntax.LexConfig([]byte(a), "x", hcl.InitialPos)
	tb, _ := hclsyntax.LexConfig([]byte(b), "x", hcl.InitialPos)
	var rest hclsyntax.Tokens
	for _, t := range tb {
		if t.Range.Start.Byte >= ip && t.Range.End.Byte <= ip+n && t.Type != hclsyntax.TokenEOF {
			if t.Type != hclsyntax.TokenNewline && t.Type != hclsyntax.TokenComment {
				return false
			}
			continue
		}
		rest = append(rest, t)
	}
	if len(rest) != len(ta) {
		return false
	}
	for i := range ta {
		x, y := ta[i], rest[i]
		if x.Type != y.Type || !bytes.Equal(x.Bytes, y.Bytes) {
			return false
		}
		ys, ye := y.Range.Start, y.Range.End
		if ys.Byte >= ip+n {
			ys.Byte -= n
			ys.Line -= lines
		}
		if ye.Byte >= ip+n {
			ye.Byte -= n
			ye.Line -= lines
		}
		if ys != x.Range.Start || ye != x.Range.End {
			return false
		}
	}
	return true
}

func c18World(cs *explore.Case, c *report.Collector, l *report.Local, tier string) {
	wa := world.Build(cs.Spec())
	src := []byte(cs.Text)
	positions := run.AllPositions(src, false)
	// results in the original world, computed once
	type qa struct {
		q run.Query
		s string
	}
	var base []qa
	for _, k := range allKinds {
		switch {
		case isPosKindP(k):
			for _, p := range positions {
				q := run.Query{Kind: k, File: cs.File, Pos: p}
				base = append(base, qa{q, run.CanonResult(run.Call(wa, q))})
			}
		case k == run.SymbolsWS:
			q := run.Query{Kind: k, Query: ""}
			base = append(base, qa{q, run.CanonResult(run.Call(wa, q))})
		default:
			q := run.Query{Kind: k, File: cs.File}
			base = append(base, qa{q, run.CanonResult(run.Call(wa, q))})
		}
		l.Count("calls", 1)
	}
	astA := ""
	for _, ip := range c18Points(cs.Text) {
		for _, ins := range c18Insertions(tier) {
			n := len(ins)
			lines := bytes.Count([]byte(ins), []byte("\n"))
			tb := cs.Text[:ip] + ins + cs.Text[ip:]
			if !lexPremise(cs.Text, tb, ip, n, lines) {
				l.Count("skipped_by_premise", 1)
				continue
			}
			csb := *cs
			csb.Text = tb
			wb := world.Build(csb.Spec())
			unshift := func(file string, p hcl.Pos) hcl.Pos {
				if file != cs.File {
					return p
				}
				if p.Byte >= ip+n {
					p.Byte -= n
					p.Line -= lines
				}
				return p
			}
			// second premise: the parser itself must yield the same tree, shifted. On broken files
			// its error recovery may depend on what follows (e.g. an ExprSyntaxError ranging to the
			// end of the file); such differences originate in the HCL parser, not in this library.
			if astA == "" {
				astA = run.Canon(wa.Ctx(0).Files[cs.File].Body)
			}
			if run.CanonWith(wb.Ctx(0).Files[cs.File].Body, run.CanonOpts{Shift: unshift}) != astA {
				l.Count("skipped_parser_tree_differs", 1)
				continue
			}
			l.Count("translated_worlds", 1)
			for _, b := range base {
				qb := b.q
				if isPosKindP(qb.Kind) && qb.Pos.Byte >= ip {
					qb.Pos.Byte += n
					qb.Pos.Line += lines
				}
				canonB := func(q run.Query) string {
					rb := run.Call(wb, q)
					l.Count("calls", 1)
					if rb.Panic != nil {
						return "PANIC " + rb.Panic.Sig()
					}
					s := run.CanonWith(rb.Val, run.CanonOpts{Shift: unshift})
					if rb.Err != nil {
						s += " ERR:" + fmt.Sprintf("%T", rb.Err)
					}
					return s
				}
				l.Count("comparisons", 1)
				sb := canonB(qb)
				if sb != b.s && isPosKindP(b.q.Kind) && b.q.Pos.Byte == ip {
					// the cursor exactly at the insertion point is both "after the text before it" and
					// "before the text after it": either translation is a correct one
					if alt := canonB(b.q); alt == b.s {
						sb = alt
						l.Count("boundary_cursor_matched_unmoved", 1)
					}
				}
				if sb != b.s {
					kind := "blank"
					if len(ins) > 0 && ins[0] != '\n' && ins[0] != ' ' {
						kind = "comment"
					}
					where := "before-item"
					if ip == len(cs.Text) {
						where = "after-last"
					}
					// two narrow situations recorded as findings of their own (see known_findings.json):
					// the cursor in the blanks that lead the first line of the file (in front of the first token, where the
					// root body's range has not begun), and the cursor right behind a bracket left open at the end of the file
					if first := firstTokenByte(cs.Text); isPosKindP(b.q.Kind) && b.q.Pos.Byte < first && strings.Contains(b.s+sb, "PosOutOfRangeError") {
						where += ":cursor-in-leading-blanks-of-the-file"
					} else if isPosKindP(b.q.Kind) && where == "after-last" && behindOpenBracketAtEOF(cs.Text, b.q.Pos.Byte) {
						where += ":cursor-behind-bracket-left-open-at-end-of-file"
					}
					c.Add(&report.Violation{Clause: "result-does-not-move-with-text", Site: kindClass(b.q.Kind) + ":" + kind + ":" + where, Check: "c18", SchemaID: cs.Entry.ID, Files: cs.Files(), Query: report.J(b.q),
						Extra:  report.J(map[string]any{"insert_at": ip, "inserted": ins}),
						Detail: fmt.Sprintf("%s: inserting %q at byte %d changes the result beyond shifting positions\n original:   %s\n translated: %s\nfile:\n%s", b.q, shortText(ins), ip, diffWindow(b.s, sb), diffWindow(sb, b.s), cs.Text)})
				} else if len(sb) > 12 {
					l.Count("nontrivial", 1)
					l.Outcome(string(b.q.Kind) + sb)
				}
			}
		}
	}
	l.Count("worlds", 1)
}

// C18: results move with the text.
func C18(tier string) int {
	c := report.NewCollector("C18")
	cases := mcWorlds(tier)
	// the one-constraint seeds once more without the final newline: the value ends the file (insertions before the
	// items only: behind an unterminated last line everything the parser extends to the end of the file would
	// change its extent, which is no pure shift)
	for i, n := 0, len(cases); i < n; i++ {
		if cs := cases[i]; cs.Family == "seed" && cs.Entry.Family == "cons" && strings.HasSuffix(cs.Text, "\n") {
			cs.Text = strings.TrimSuffix(cs.Text, "\n")
			cs.Family = "seed-noeol"
			cases = append(cases, cs)
		}
	}
	// two files of one path that both refer to a declaration of the edited file: the other file's reference stands at a
	// larger byte offset than the edited file's (results that list places of several files must not order them by offset)
	for i := range cases {
		if cases[i].Entry.ID == "S:addr-forms" {
			cases = append(cases, explore.Case{Entry: cases[i].Entry, File: "main.tf", Family: "twofiles", PosTo: -1,
				Text: "variable \"b\" {\n  default = var.x\n}\nvariable \"x\" {\n  type = string\n}\n",
				More: []world.FileSpec{{Name: "a.tf", Text: "# padding padding padding padding padding padding\nvariable \"a\" {\n  default = var.x\n}\n"}}})
			break
		}
	}
	// broken files: also single-token edits of the first seeds (thorough) are in mcWorlds' prefix family
	explore.ParallelEach(len(cases), c, explore.Deadline(tier), func(i int, l *report.Local) {
		if cases[i].Family == "multifile" {
			return
		}
		if cases[i].Family == "prefix" && tier != "thorough" && i%3 != 0 {
			return
		}
		c18World(&cases[i], c, l, tier)
	})
	c.Sample(map[string]any{"world": cases[1].Entry.ID, "file": cases[1].Text, "insertion_points": c18Points(cases[1].Text), "inserted": c18Insertions(tier),
		"oracle": "every query at every position of the original, asked at the moved cursor in the translated file, gives the same canonical result after un-shifting positions >= insertion point"})
	return c.Finish(report.FinishOpts{
		Tier: tier, Level: "exploration", EvalCounter: "calls",
		Rule:         "differential E1: files (structure seeds, their prefixes, one-constraint bodies) x every insertion point (line start of each top-level item, end of file) x inserted lines menu (blank, #, //, multi-byte comment, two lines) x all entry points x all rune-boundary cursors; both worlds fully re-collected; canonical results compared after un-shifting every position at/after the insertion point; premises: the translated file lexes to the original tokens shifted plus newline/comment tokens (else skipped_by_premise) and the HCL parser yields the same syntax tree shifted (else skipped_parser_tree_differs: recovery of broken files depends on what follows); non-trivial = non-empty equal result",
		BiteCounters: []string{"comparisons", "translated_worlds"},
	})
}

// shortText abbreviates a long inserted text for messages.
func shortText(s string) string {
	if len(s) <= 48 {
		return s
	}
	return fmt.Sprintf("%s...(%d bytes)...%s", s[:20], len(s), s[len(s)-8:])
}

// firstTokenByte: the offset of the first token of the file that is neither a newline nor a comment.
func firstTokenByte(text string) int {
	toks, _ := hclsyntax.LexConfig([]byte(text), "main.tf", hcl.InitialPos)
	for _, t := range toks {
		if t.Type != hclsyntax.TokenNewline && t.Type != hclsyntax.TokenComment {
			return t.Range.Start.Byte
		}
	}
	return len(text)
}

// behindOpenBracketAtEOF: pos stands right behind an opening bracket and nothing but blanks and newlines follow.
func behindOpenBracketAtEOF(text string, pos int) bool {
	if pos <= 0 || pos > len(text) {
		return false
	}
	switch text[pos-1] {
	case '{', '[', '(':
	default:
		return false
	}
	return strings.TrimSpace(text[pos:]) == ""
}
