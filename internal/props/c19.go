package props

import (
	"encoding/json"
	"fmt"
	"sort"
	"strings"

	"github.com/hashicorp/hcl-lang/decoder"
	"github.com/hashicorp/hcl-lang/lang"
	"github.com/hashicorp/hcl-lang/reference"
	"github.com/hashicorp/hcl-lang/schema"
	"github.com/hashicorp/hcl/v2"
	"github.com/hashicorp/hcl/v2/hclsyntax"
	"github.com/zclconf/go-cty/cty"

	"verif/internal/explore"
	"verif/internal/gen"
	"verif/internal/report"
	"verif/internal/run"
	"verif/internal/world"
)

// ---- abstract configuration expressible in both syntaxes ----------------------------------------

type cval struct {
	kind  string // str num bool list obj ref reflegacy tmpl
	s     string
	items []cval
	keys  []string
}

type citem struct {
	attr   string
	val    cval
	block  string
	labels []string
	body   []citem
}

func cStr(s string) cval { return cval{kind: "str", s: s} }

// cStrLit is a string meant literally although it holds template sequences: both syntaxes write them escaped.
func cStrLit(s string) cval { return cval{kind: "strlit", s: s} }
func cNum(s string) cval    { return cval{kind: "num", s: s} }
func cBool(s string) cval   { return cval{kind: "bool", s: s} }
func cRef(a string) cval    { return cval{kind: "ref", s: a} }
func cTmpl(a string) cval   { return cval{kind: "tmpl", s: a} }
func cList(xs ...cval) cval {
	return cval{kind: "list", items: xs}
}
func cObj(kv ...any) cval {
	v := cval{kind: "obj"}
	for i := 0; i+1 < len(kv); i += 2 {
		v.keys = append(v.keys, kv[i].(string))
		v.items = append(v.items, kv[i+1].(cval))
	}
	return v
}

func (v cval) native() string {
	switch v.kind {
	case "str":
		return fmt.Sprintf("%q", v.s)
	case "strlit":
		return fmt.Sprintf("%q", strings.ReplaceAll(strings.ReplaceAll(v.s, "${", "$${"), "%{", "%%{"))
	case "num", "bool":
		return v.s
	case "ref", "reflegacy":
		return v.s
	case "tmpl":
		return `"p-${` + v.s + `}-s"`
	case "list":
		var xs []string
		for _, x := range v.items {
			xs = append(xs, x.native())
		}
		return "[" + strings.Join(xs, ", ") + "]"
	case "obj":
		var xs []string
		for i, x := range v.items {
			k := v.keys[i]
			if strings.Contains(k, "${") {
				k = `"` + k + `"` // a key with interpolation is a quoted template in native syntax
			}
			xs = append(xs, k+" = "+x.native())
		}
		return "{ " + strings.Join(xs, ", ") + " }"
	}
	return "null"
}

func (v cval) json() any {
	switch v.kind {
	case "str":
		return v.s
	case "strlit":
		return strings.ReplaceAll(strings.ReplaceAll(v.s, "${", "$${"), "%{", "%%{")
	case "num":
		var f float64
		fmt.Sscanf(v.s, "%g", &f)
		return f
	case "bool":
		return v.s == "true"
	case "ref":
		return "${" + v.s + "}"
	case "reflegacy":
		return v.s
	case "tmpl":
		return "p-${" + v.s + "}-s"
	case "list":
		xs := []any{}
		for _, x := range v.items {
			xs = append(xs, x.json())
		}
		return xs
	case "obj":
		m := map[string]any{}
		for i, x := range v.items {
			m[v.keys[i]] = x.json()
		}
		return m
	}
	return nil
}

func renderNative(items []citem, indent string) string {
	var sb strings.Builder
	for _, it := range items {
		if it.block == "" {
			fmt.Fprintf(&sb, "%s%s = %s\n", indent, it.attr, it.val.native())
			continue
		}
		sb.WriteString(indent + it.block)
		for _, l := range it.labels {
			fmt.Fprintf(&sb, " %q", l)
		}
		sb.WriteString(" {\n")
		sb.WriteString(renderNative(it.body, indent+"  "))
		sb.WriteString(indent + "}\n")
	}
	return sb.String()
}

// ordered JSON object (HCL-JSON is order sensitive for blocks)
type ojson struct {
	keys []string
	vals map[string]any
}

func (o *ojson) MarshalJSON() ([]byte, error) {
	var sb strings.Builder
	sb.WriteString("{")
	for i, k := range o.keys {
		if i > 0 {
			sb.WriteString(",")
		}
		kb, _ := json.Marshal(k)
		vb, err := json.Marshal(o.vals[k])
		if err != nil {
			return nil, err
		}
		sb.Write(kb)
		sb.WriteString(":")
		sb.Write(vb)
	}
	sb.WriteString("}")
	return []byte(sb.String()), nil
}

func (o *ojson) set(k string, v any) {
	if _, ok := o.vals[k]; !ok {
		o.keys = append(o.keys, k)
	}
	o.vals[k] = v
}

func newO() *ojson { return &ojson{vals: map[string]any{}} }

// renderJSON: blocks of one type are rendered in array form (arrayForm) or merged object form.
func renderJSON(items []citem, arrayForm bool) *ojson {
	o := newO()
	for _, it := range items {
		if it.block == "" {
			o.set(it.attr, it.val.json())
			continue
		}
		inner := any(renderJSON(it.body, arrayForm))
		for i := len(it.labels) - 1; i >= 0; i-- {
			w := newO()
			w.set(it.labels[i], inner)
			inner = w
		}
		if cur, ok := o.vals[it.block]; ok {
			if arr, isArr := cur.([]any); isArr {
				o.vals[it.block] = append(arr, inner)
			} else {
				o.vals[it.block] = []any{cur, inner}
			}
		} else if arrayForm {
			o.set(it.block, []any{inner})
		} else {
			o.set(it.block, inner)
		}
	}
	return o
}

// nestedAttrs: z plus p01..p14, so that label-less sibling blocks can be told apart by what they hold.
func nestedAttrs() map[string]*schema.AttributeSchema {
	m := map[string]*schema.AttributeSchema{"z": {Constraint: schema.AnyExpression{OfType: cty.String}, IsOptional: true}}
	for i := 1; i <= 14; i++ {
		m[fmt.Sprintf("p%02d", i)] = &schema.AttributeSchema{Constraint: schema.AnyExpression{OfType: cty.String}, IsOptional: true}
	}
	return m
}

func c19Schema() *schema.BodySchema {
	anyOf := func(t cty.Type) *schema.AttributeSchema {
		return &schema.AttributeSchema{Constraint: schema.AnyExpression{OfType: t}, IsOptional: true}
	}
	objT := cty.Object(map[string]cty.Type{"foo": cty.String, "bar": cty.Bool})
	return &schema.BodySchema{
		Attributes: map[string]*schema.AttributeSchema{
			"s": anyOf(cty.String), "n": anyOf(cty.Number), "b": anyOf(cty.Bool), "l": anyOf(cty.List(cty.String)), "m": anyOf(cty.Map(cty.String)), "o": anyOf(objT),
			"r": {Constraint: schema.Reference{OfType: cty.String}, IsOptional: true},
			// a read-only attribute (computed, neither optional nor required) that a configuration sets all the same
			"cmp": {Constraint: schema.AnyExpression{OfType: cty.String}, IsComputed: true},
			"lit": {Constraint: schema.LiteralType{Type: cty.String}, IsOptional: true},
			"obj": {Constraint: schema.Object{Attributes: schema.ObjectAttributes{"foo": anyOf(cty.String), "bar": anyOf(cty.Bool)}}, IsOptional: true},
			"lst": {Constraint: schema.List{Elem: schema.AnyExpression{OfType: cty.String}}, IsOptional: true},
			"ra":  {Constraint: schema.Reference{Address: &schema.ReferenceAddrSchema{ScopeId: "sx"}}, IsOptional: true},
			"mp": {Constraint: schema.Map{Elem: schema.AnyExpression{OfType: cty.String}}, IsOptional: true,
				Address: &schema.AttributeAddrSchema{Steps: schema.Address{schema.StaticStep{Name: "mp"}, schema.AttrNameStep{}}, AsReference: true, AsExprType: true, ScopeId: "sm"}},
			"ob": {Constraint: schema.Object{Attributes: schema.ObjectAttributes{"foo": anyOf(cty.String), "bar": anyOf(cty.Bool)}}, IsOptional: true,
				Address: &schema.AttributeAddrSchema{Steps: schema.Address{schema.StaticStep{Name: "ob"}, schema.AttrNameStep{}}, AsReference: true, AsExprType: true, ScopeId: "sm"}},
			"tgt": {Constraint: schema.AnyExpression{OfType: cty.DynamicPseudoType}, IsOptional: true,
				Address: &schema.AttributeAddrSchema{Steps: schema.Address{schema.StaticStep{Name: "root"}, schema.AttrNameStep{}}, AsReference: true, AsExprType: true, ScopeId: "st"}},
		},
		Blocks: map[string]*schema.BlockSchema{
			"variable": {Labels: []*schema.LabelSchema{{Name: "name"}}, Body: &schema.BodySchema{Attributes: map[string]*schema.AttributeSchema{"default": anyOf(cty.DynamicPseudoType), "desc": {Constraint: schema.LiteralType{Type: cty.String}, IsOptional: true}}},
				Address: &schema.BlockAddrSchema{Steps: schema.Address{schema.StaticStep{Name: "var"}, schema.LabelStep{Index: 0}}, ScopeId: "sv", AsReference: true, FriendlyName: "variable"}},
			"mixed": {Body: &schema.BodySchema{
				Blocks: map[string]*schema.BlockSchema{"meta": {Body: &schema.BodySchema{Attributes: map[string]*schema.AttributeSchema{"owner": anyOf(cty.String)}}}},
				AnyAttribute: &schema.AttributeSchema{Constraint: schema.AnyExpression{OfType: cty.DynamicPseudoType}, IsOptional: true,
					Address: &schema.AttributeAddrSchema{Steps: schema.Address{schema.StaticStep{Name: "mixed"}, schema.AttrNameStep{}}, ScopeId: "sm", AsReference: true, AsExprType: true}}}},
			"locals": {Body: &schema.BodySchema{AnyAttribute: &schema.AttributeSchema{Constraint: schema.AnyExpression{OfType: cty.DynamicPseudoType}, IsOptional: true,
				Address: &schema.AttributeAddrSchema{Steps: schema.Address{schema.StaticStep{Name: "local"}, schema.AttrNameStep{}}, ScopeId: "sl", AsReference: true, AsExprType: true}}}},
			"resource": {Labels: []*schema.LabelSchema{{Name: "type"}, {Name: "name"}},
				Body: &schema.BodySchema{
					Attributes: map[string]*schema.AttributeSchema{"x": anyOf(cty.String), "y": anyOf(cty.Number), "tags": anyOf(cty.Map(cty.String))},
					Blocks: map[string]*schema.BlockSchema{
						"nested": {Type: schema.BlockTypeList, Body: &schema.BodySchema{Attributes: nestedAttrs()}},
						"single": {Type: schema.BlockTypeObject, Body: &schema.BodySchema{Attributes: map[string]*schema.AttributeSchema{"w": anyOf(cty.Bool)}}},
					}},
				Address: &schema.BlockAddrSchema{Steps: schema.Address{schema.LabelStep{Index: 0}, schema.LabelStep{Index: 1}}, ScopeId: "sr", BodyAsData: true, InferBody: true, AsReference: true}},
			"output": {Labels: []*schema.LabelSchema{{Name: "name"}}, Body: &schema.BodySchema{Attributes: map[string]*schema.AttributeSchema{"value": anyOf(cty.DynamicPseudoType)}}},
			"req": {Body: &schema.BodySchema{
				Attributes: map[string]*schema.AttributeSchema{"must": {Constraint: schema.AnyExpression{OfType: cty.String}, IsRequired: true}, "opt": anyOf(cty.String),
					"tags": {Constraint: schema.AnyExpression{OfType: cty.Map(cty.String)}, IsOptional: true, Address: &schema.AttributeAddrSchema{Steps: schema.Address{schema.StaticStep{Name: "req"}, schema.AttrNameStep{}}, ScopeId: "sq", AsReference: true, AsExprType: true}}},
				Blocks: map[string]*schema.BlockSchema{"link": {Body: &schema.BodySchema{Attributes: map[string]*schema.AttributeSchema{"peer": {Constraint: schema.AnyExpression{OfType: cty.String}, IsRequired: true}, "via": anyOf(cty.String)}}}}}},
			// dependent bodies selected by an attribute value: sibling blocks of one type select different bodies
			"svc": {Labels: []*schema.LabelSchema{{Name: "name"}},
				Body: &schema.BodySchema{Attributes: map[string]*schema.AttributeSchema{"kind": {Constraint: schema.LiteralType{Type: cty.String}, IsOptional: true, IsDepKey: true}}},
				DependentBody: map[schema.SchemaKey]*schema.BodySchema{
					depKey(nil, []schema.AttributeDependent{attrDep("kind", cty.StringVal("web"))}): {Attributes: map[string]*schema.AttributeSchema{"port": anyOf(cty.String)},
						Blocks: map[string]*schema.BlockSchema{"tls": {Body: &schema.BodySchema{Attributes: map[string]*schema.AttributeSchema{"cert": anyOf(cty.String)}}}}},
					depKey(nil, []schema.AttributeDependent{attrDep("kind", cty.StringVal("db"))}): {Attributes: map[string]*schema.AttributeSchema{"engine": anyOf(cty.String)}},
					// a key value that holds a template sequence literally (written escaped in both syntaxes)
					depKey(nil, []schema.AttributeDependent{attrDep("kind", cty.StringVal("k${x}"))}): {Attributes: map[string]*schema.AttributeSchema{"lit": anyOf(cty.String)}},
					// a key value that is spelled like a traversal
					depKey(nil, []schema.AttributeDependent{attrDep("kind", cty.StringVal("apps.v1"))}): {Attributes: map[string]*schema.AttributeSchema{"replicas": anyOf(cty.Number)}},
				}},
			"plain": {Body: &schema.BodySchema{Attributes: map[string]*schema.AttributeSchema{"s": anyOf(cty.String)}}},
			// a block address that ends in the value of an attribute (Terraform: provider alias)
			"prv": {Labels: []*schema.LabelSchema{{Name: "name"}}, Body: &schema.BodySchema{Attributes: map[string]*schema.AttributeSchema{"alias": anyOf(cty.String)}},
				Address: &schema.BlockAddrSchema{Steps: schema.Address{schema.StaticStep{Name: "prv"}, schema.LabelStep{Index: 0}, schema.AttrValueStep{Name: "alias", IsOptional: true}}, ScopeId: "sp", AsReference: true}},
			// a block type whose static body declares nothing but the count / for_each extensions (all attributes come
			// from dependent bodies), used with a label no dependent body is registered for
			"xres": {Labels: []*schema.LabelSchema{{Name: "type", IsDepKey: true}, {Name: "name"}},
				Body: &schema.BodySchema{Extensions: &schema.BodyExtensions{Count: true, ForEach: true}},
				DependentBody: map[schema.SchemaKey]*schema.BodySchema{
					depKey([]schema.LabelDependent{{Index: 0, Value: "known"}}, nil): {Attributes: map[string]*schema.AttributeSchema{"x": anyOf(cty.String)}},
				}},
			// dynamic blocks in a block type that has no dependent bodies (static body with the extension), and below a
			// nested block of it
			"dhost": {Body: &schema.BodySchema{Extensions: &schema.BodyExtensions{DynamicBlocks: true},
				Attributes: map[string]*schema.AttributeSchema{"hn": anyOf(cty.String)},
				Blocks: map[string]*schema.BlockSchema{"rule": {Body: &schema.BodySchema{Attributes: map[string]*schema.AttributeSchema{"name": anyOf(cty.String)},
					Blocks: map[string]*schema.BlockSchema{"sub": {Body: &schema.BodySchema{Attributes: map[string]*schema.AttributeSchema{"sn": anyOf(cty.String)}}}}}}}}},
			// a dependent body selected by the *reference* written in a key attribute (Terraform: provider = aws.west)
			"inst": {Labels: []*schema.LabelSchema{{Name: "name"}},
				Body: &schema.BodySchema{Attributes: map[string]*schema.AttributeSchema{"prov": {Constraint: schema.Reference{OfScopeId: "sv"}, IsOptional: true, IsDepKey: true}}},
				DependentBody: map[schema.SchemaKey]*schema.BodySchema{
					depKey(nil, []schema.AttributeDependent{{Name: "prov", Expr: schema.ExpressionValue{Address: lang.Address{lang.RootStep{Name: "var"}, lang.AttrStep{Name: "a"}}}}}): {
						Attributes: map[string]*schema.AttributeSchema{"extra": anyOf(cty.String),
							"decl": {Constraint: schema.AnyExpression{OfType: cty.String}, IsOptional: true, Address: &schema.AttributeAddrSchema{Steps: schema.Address{schema.StaticStep{Name: "inst"}, schema.AttrNameStep{}}, ScopeId: "si", AsReference: true, AsExprType: true}}}},
				}},
		},
	}
}

// c19Configs: a base configuration plus one-at-a-time variations of every attribute's value form.
func c19Configs() [][]citem {
	attr := func(n string, v cval) citem { return citem{attr: n, val: v} }
	blk := func(t string, labels []string, body ...citem) citem {
		return citem{block: t, labels: labels, body: body}
	}
	base := []citem{
		blk("variable", []string{"a"}, attr("default", cStr("d"))),
		blk("variable", []string{"b"}),
		blk("resource", []string{"aws", "one"}, attr("x", cRef("var.a")), attr("y", cNum("1")), attr("tags", cObj("k", cStr("v"), "j", cRef("var.b"))),
			blk("nested", nil, attr("z", cStr("1"))), blk("nested", nil, attr("z", cRef("var.a"))), blk("single", nil, attr("w", cBool("true")))),
		blk("output", []string{"o"}, attr("value", cRef("aws.one.x"))),
	}
	var out [][]citem
	out = append(out, base)
	forms := map[string][]cval{
		"s":   {cStr("x"), cRef("var.a"), cTmpl("var.a"), cStr("")},
		"n":   {cNum("42"), cRef("var.a")},
		"b":   {cBool("true"), cRef("var.b")},
		"l":   {cList(cStr("a"), cStr("b")), cList(cRef("var.a"), cStr("b")), cList()},
		"m":   {cObj("k", cStr("v")), cObj("k", cRef("var.a"), "j", cTmpl("var.b"))},
		"o":   {cObj("foo", cStr("f"), "bar", cBool("true")), cObj("foo", cRef("var.a"))},
		"r":   {cRef("var.a"), cval{kind: "reflegacy", s: "var.b"}},
		"lit": {cStr("plain"), cStr("var.a")},
		"obj": {cObj("foo", cRef("var.a"), "bar", cBool("false"))},
		"lst": {cList(cRef("var.a"), cTmpl("var.b"))},
		"tgt": {cStr("t"), cNum("7"), cBool("true"), cList(cStr("a"), cStr("b")), cObj("k", cStr("v"), "l", cList(cNum("1"))), cRef("var.a")},
	}
	names := make([]string, 0, len(forms))
	for n := range forms {
		names = append(names, n)
	}
	sort.Strings(names)
	for _, n := range names {
		for _, f := range forms[n] {
			out = append(out, append([]citem{attr(n, f)}, base...))
		}
	}
	// locals (AnyAttribute) with every value form, nested collections
	out = append(out, []citem{blk("variable", []string{"a"}), blk("locals", nil, attr("p", cStr("x")), attr("q", cList(cNum("1"), cNum("2"))), attr("r", cObj("k", cObj("kk", cStr("v")))), attr("t", cRef("var.a")))})
	// an any-attribute body that also declares a block type
	out = append(out, []citem{blk("variable", []string{"team"}), blk("mixed", nil, attr("region", cStr("eu")), blk("meta", nil, attr("owner", cRef("var.team"))))})
	// label-less blocks, several of one type
	out = append(out, []citem{blk("plain", nil, attr("s", cStr("1"))), blk("plain", nil, attr("s", cRef("var.zz")))})
	// a body with a required attribute: written, and not written yet (with other content around it)
	out = append(out, []citem{blk("variable", []string{"a"}), blk("req", nil, attr("must", cRef("var.a")), attr("opt", cStr("o")), attr("tags", cObj("env", cStr("p"))), blk("link", nil, attr("peer", cRef("var.a"))))})
	out = append(out, []citem{blk("variable", []string{"a"}), blk("req", nil, attr("opt", cRef("var.a")), attr("tags", cObj("env", cStr("p"))), blk("link", nil, attr("via", cRef("var.a"))))})
	// many blocks of one type followed by attributes (more symbols in one body than a small-slice sort fallback covers)
	{
		var many []citem
		for i := 1; i <= 14; i++ {
			many = append(many, blk("variable", []string{fmt.Sprintf("v%02d", i)}, attr("default", cNum(fmt.Sprint(i)))))
		}
		many = append(many, attr("s", cStr("x")), attr("n", cNum("1")), attr("b", cBool("true")))
		out = append(out, many)
		var nested []citem
		for i := 1; i <= 14; i++ {
			nested = append(nested, blk("nested", nil, attr(fmt.Sprintf("p%02d", i), cStr(fmt.Sprint(i)))))
		}
		nested = append(nested, attr("x", cStr("x")), attr("y", cNum("1")), attr("tags", cObj("k", cStr("v"))))
		out = append(out, []citem{blk("resource", []string{"aws", "many"}, nested...)})
	}
	// sibling blocks of one type whose dependent bodies are selected by different attribute values (both orders)
	out = append(out, []citem{blk("variable", []string{"a"}), blk("svc", []string{"a"}, attr("kind", cStr("web")), attr("port", cRef("var.a")), blk("tls", nil, attr("cert", cStr("c")))), blk("svc", []string{"b"}, attr("kind", cStr("db")), attr("engine", cRef("var.a")))})
	out = append(out, []citem{blk("variable", []string{"a"}), blk("svc", []string{"b"}, attr("kind", cStr("db")), attr("engine", cRef("var.a"))), blk("svc", []string{"a"}, attr("kind", cStr("web")), attr("port", cRef("var.a")), blk("tls", nil, attr("cert", cStr("c"))))})
	out = append(out, []citem{blk("variable", []string{"a"}), blk("svc", []string{"c"}, attr("kind", cStr("apps.v1")), attr("replicas", cRef("var.a")))})
	out = append(out, []citem{blk("variable", []string{"a"}), blk("svc", []string{"e"}, attr("kind", cStrLit("k${x}")), attr("lit", cRef("var.a")))})
	out = append(out, []citem{blk("variable", []string{"a"}), attr("cmp", cRef("var.a")), attr("s", cStr("x y"))})
	out = append(out, []citem{blk("variable", []string{"a"}), blk("prv", []string{"p"}, attr("alias", cStr("west"))), blk("prv", []string{"q"}), blk("prv", []string{"r"}, attr("alias", cRef("var.a"))), blk("prv", []string{"s"}, attr("alias", cTmpl("var.a")))})
	out = append(out, []citem{blk("variable", []string{"a"}), blk("xres", []string{"other", "b"}, attr("count", cRef("var.a"))), blk("xres", []string{"known", "c"}, attr("for_each", cRef("var.a")), attr("x", cRef("var.a"))),
		blk("xres", []string{"other", "d"}, attr("for_each", cObj("k", cRef("var.a"))))})
	out = append(out, []citem{blk("variable", []string{"a"}), blk("dhost", nil, attr("hn", cRef("var.a")),
		blk("dynamic", []string{"rule"}, attr("for_each", cRef("var.a")), blk("content", nil, attr("name", cRef("var.a")),
			blk("dynamic", []string{"sub"}, attr("for_each", cList()), blk("content", nil, attr("sn", cStr("s s")))))))})
	out = append(out, []citem{blk("variable", []string{"a"}), blk("inst", []string{"i"}, attr("prov", cRef("var.a")), attr("extra", cRef("var.a")), attr("decl", cStr("d")))})
	out = append(out, []citem{blk("variable", []string{"a"}), blk("variable", []string{"b"}), blk("inst", []string{"i"}, attr("prov", cRef("var.b"))), blk("inst", []string{"j"}, attr("extra", cRef("var.a")), attr("prov", cRef("var.a")))})
	// several resources
	out = append(out, []citem{blk("variable", []string{"a"}), blk("resource", []string{"aws", "one"}, attr("x", cStr("1"))), blk("resource", []string{"aws", "two"}, attr("x", cRef("aws.one.x"))), blk("resource", []string{"gcp", "one"}, attr("y", cNum("3")))})
	return out
}

// more contexts: every value form in every attribute context
func c19MoreConfigs() [][]citem {
	attr := func(n string, v cval) citem { return citem{attr: n, val: v} }
	blk := func(t string, labels []string, body ...citem) citem {
		return citem{block: t, labels: labels, body: body}
	}
	forms := []cval{cStr("x"), cStr(""), cNum("3"), cBool("false"), cRef("var.a"), cRef("aws.one.tags"), cTmpl("var.a"), cList(cStr("a"), cRef("var.a")), cList(cList(cStr("n"))),
		cObj("k", cStr("v"), "r", cRef("var.a")), cObj("o", cObj("p", cList(cNum("1"), cNum("2"))))}
	var out [][]citem
	for _, f := range forms {
		out = append(out,
			[]citem{blk("variable", []string{"a"}, attr("default", f)), blk("output", []string{"o"}, attr("value", f))},
			[]citem{blk("variable", []string{"a"}), blk("locals", nil, attr("v", f), attr("w", cRef("local.v")))},
			[]citem{blk("variable", []string{"a"}), blk("resource", []string{"aws", "one"}, attr("x", f), attr("tags", f), blk("nested", nil, attr("z", f)), blk("single", nil, attr("w", f)))},
			[]citem{blk("variable", []string{"a"}), attr("tgt", f), attr("s", f), attr("lst", f), attr("obj", f), attr("lit", f)},
		)
	}
	return out
}

// c19JSONOnly: configurations only fed to the safety sweeps in their JSON rendering: string values and object
// keys holding templates that evaluate to null, to unknown, or not at all.
func c19JSONOnly() [][]citem {
	attr := func(n string, v cval) citem { return citem{attr: n, val: v} }
	odd := []string{`true ? null : "x"`, `null`, `var.a`, `1`, `[`, `"a"`, `true ? var.a : null`}
	var out [][]citem
	for _, e := range odd {
		k := "${" + e + "}"
		out = append(out, []citem{
			attr("tgt", cObj(k, cNum("1"), "plain", cRef(e))), attr("mp", cObj(k, cStr("v"), "j", cRef(e))), attr("ob", cObj(k, cStr("v"), "foo", cRef(e))),
			attr("ra", cRef(e)), attr("r", cRef(e)), attr("s", cRef(e)), attr("lst", cList(cRef(e))), attr("obj", cObj(k, cRef(e))), attr("lit", cRef(e)), attr("m", cObj(k, cRef(e))),
			{block: "variable", labels: []string{"a"}, body: []citem{attr("default", cObj(k, cRef(e)))}},
			{block: "resource", labels: []string{"aws", "one"}, body: []citem{attr("tags", cObj(k, cRef(e))), attr("x", cRef(e))}},
			{block: "locals", body: []citem{attr("p", cObj(k, cRef(e))), attr("q", cRef(e))}},
		})
	}
	return out
}

// jsonCases: JSON renderings (and their prefixes) of the C19 configurations for the C01/C02 sweeps.
func jsonCases(tier string) []explore.Case {
	ent := &gen.Entry{ID: "J:c19", Mk: c19Schema, Family: "struct", Hooks: -1}
	var out []explore.Case
	cfgs := append(c19Configs(), c19MoreConfigs()...)
	nPair := len(cfgs)
	cfgs = append(cfgs, c19JSONOnly()...)
	for i, cfg := range cfgs {
		if tier != "thorough" && i%4 != 0 && i < nPair {
			continue
		}
		b, err := json.MarshalIndent(renderJSON(cfg, i%2 == 1), "", " ")
		if err != nil {
			continue
		}
		text := string(b) + "\n"
		out = append(out, explore.Case{Entry: ent, File: "main.tf.json", Text: text, Family: "json", PosTo: -1})
		step := 7
		if tier == "thorough" {
			step = 2
		}
		for n := 1; n < len(text); n += step {
			out = append(out, explore.Case{Entry: ent, File: "main.tf.json", Text: text[:n], Family: "json-prefix", PosTo: -1})
		}
	}
	return out
}

type projTarget struct {
	Addr, Type, Scope, Name string
	Nested                  []projTarget
}

func projectTargets(ts reference.Targets) []projTarget {
	var out []projTarget
	for _, t := range ts {
		if len(t.Addr) == 0 {
			continue // block-local targets cannot be delimited in JSON
		}
		ty := "nil"
		if t.Type != cty.NilType {
			ty = t.Type.GoString()
		}
		out = append(out, projTarget{t.Addr.String(), ty, string(t.ScopeId), t.Name, projectTargets(t.NestedTargets)})
	}
	sort.Slice(out, func(i, j int) bool {
		if out[i].Addr != out[j].Addr {
			return out[i].Addr < out[j].Addr
		}
		return out[i].Type < out[j].Type
	})
	return out
}

type projOrigin struct {
	Addr string
	Cons string
}

func projectOrigins(os reference.Origins) []projOrigin {
	var out []projOrigin
	for _, o := range os {
		if lo, ok := o.(reference.LocalOrigin); ok {
			var cs []string
			for _, c := range lo.Constraints {
				ty := "nil"
				if c.OfType != cty.NilType {
					ty = c.OfType.FriendlyName()
				}
				cs = append(cs, string(c.OfScopeId)+"/"+ty)
			}
			sort.Strings(cs)
			out = append(out, projOrigin{lo.Addr.String(), strings.Join(cs, ",")})
		}
	}
	sort.Slice(out, func(i, j int) bool {
		return out[i].Addr < out[j].Addr || (out[i].Addr == out[j].Addr && out[i].Cons < out[j].Cons)
	})
	return out
}

type projSym struct {
	Kind, Name string
	Nested     []projSym
}

func projectSymbols(ss []decoder.Symbol) []projSym {
	var out []projSym
	for _, s := range ss {
		k := "attr"
		switch s.(type) {
		case *decoder.BlockSymbol:
			k = "block"
		case *decoder.ExprSymbol:
			// the statement is about the block/attribute outline; JSON values have no element symbols
			continue
		}
		out = append(out, projSym{k, s.Name(), projectSymbols(s.NestedSymbols())})
	}
	return out
}

func c19Pair(cfg []citem, arrayForm bool, c *report.Collector, l *report.Local) {
	c19PairIn(gen.Entry{ID: "J:c19", Mk: c19Schema, Family: "struct", Hooks: -1}, cfg, arrayForm, c, l)
}

// c19ConsForms: the value forms both syntaxes express, placed under every constraint of the catalogue.
func c19ConsForms() []cval {
	// (plain strings are not spelled like a traversal: a JSON string that is one IS a reference under a
	// Reference constraint - the documented legacy form, covered as "reflegacy" in part 1)
	return []cval{cStr("x y"), cStr("foo !"), cStr(""), cStr("fn(decl.foo.bar)"), cStr("nosuchfn(decl.foo)"), cStr("[decl.foo]"), cNum("3"), cBool("true"), cRef("decl.foo"), cRef("decl.foo.bar"), cTmpl("decl.foo.bar"), cRef(`decl.foo["k"]`), cRef("decl.foo[0]"),
		cList(), cList(cStr("a b")), cList(cStr("a b"), cRef("decl.foo.bar")), cList(cList(cStr("n n"))), cList(cObj("foo", cStr("x y"))),
		cObj(), cObj("foo", cStr("x y")), cObj("foo", cStr("x y"), "bar", cBool("true")), cObj("foo", cRef("decl.foo.bar"), "bar", cRef("decl.foo")), cObj("k", cObj("foo", cList(cNum("1"), cNum("2")))),
		cObj("foo", cList(cStr("a b"), cStr("b c"))), cObj("zz", cRef("decl.foo.bar")),
		// objects below the top level holding keys their type may not declare
		cList(cObj("zz", cRef("decl.foo.bar"))), cList(cObj("foo", cRef("decl.foo.bar"), "zz", cRef("decl.foo"))), cObj("k", cObj("zz", cRef("decl.foo.bar"))),
		cList(cList(cObj("zz", cRef("decl.foo.bar")))),
		// references interpolated into keys
		cObj("${decl.foo.bar}-x", cStr("v v")), cObj("${decl.foo.bar}", cStr("v v"), "plain", cRef("decl.foo"))}
}

// c19ConsConfigs: the three places of a one-constraint body.
func c19ConsConfigs(f cval) [][]citem {
	attr := func(n string, v cval) citem { return citem{attr: n, val: v} }
	decl := citem{block: "decl", labels: []string{"foo"}, body: []citem{attr("bar", cStr("x"))}}
	return [][]citem{
		{decl, attr("attr", f)},
		{decl, attr("attr2", f)},
		{decl, {block: "blk", body: []citem{attr("attr", f), {block: "nb", body: []citem{attr("attr", f)}}}}},
		// the extension attributes of the block body
		{decl, {block: "blk", body: []citem{attr("count", cRef("decl.foo.id")), attr("attr", f)}}},
		{decl, {block: "blk", body: []citem{attr("for_each", cObj("k", cRef("decl.foo.bar"))), attr("attr2", cRef("each.key"))}}},
	}
}

func c19PairIn(ent gen.Entry, cfg []citem, arrayForm bool, c *report.Collector, l *report.Local) {
	nat := renderNative(cfg, "")
	jb, err := json.MarshalIndent(renderJSON(cfg, arrayForm), "", "  ")
	if err != nil {
		return
	}
	js := string(jb) + "\n"
	wn := world.Build(explore.EntrySpec(&ent, []world.FileSpec{{Name: "main.tf", Text: nat}}))
	wj := world.Build(explore.EntrySpec(&ent, []world.FileSpec{{Name: "main.tf.json", Text: js}}))
	l.Count("pairs", 1)
	bad := func(clause, what, detail string) {
		if ent.Cons != nil {
			what += "/" + ent.Cons.Name
		}
		if clause == "origins:addresses-differ" && strings.Contains(nat, `= decl.foo["k"]`) {
			// one situation whatever the constraint: a reference with a quoted index key standing alone
			what = "origins:reference-with-string-index-key-under-Reference"
		}
		if clause == "targets:differ" && strings.Contains(nat, `= decl.foo["k"]`) {
			what = "targets:reference-with-string-index-key-under-Reference"
		}
		c.Add(&report.Violation{Clause: clause, Site: what, Check: "c19", SchemaID: ent.ID, Files: []report.FileSpec{{Path: "/p0", Name: "main.tf", Text: nat}, {Path: "/p0", Name: "main.tf.json", Text: js}},
			Detail: detail + "\nnative:\n" + nat + "\njson:\n" + js})
	}
	// targets
	tn := run.Call(wn, run.Query{Kind: run.CollectTargets})
	tj := run.Call(wj, run.Query{Kind: run.CollectTargets})
	l.Count("calls", 2)
	if tn.Panic == nil && tj.Panic == nil {
		pn, pj := projectTargets(tn.Val.(reference.Targets)), projectTargets(tj.Val.(reference.Targets))
		if fmt.Sprint(pn) != fmt.Sprint(pj) {
			bad("targets:differ", firstTargetDiff(pn, pj), fmt.Sprintf("absolute reference targets differ\n native: %v\n json:   %v", pn, pj))
		} else if len(pn) > 0 {
			l.Count("nontrivial", 1)
			l.Outcome(fmt.Sprint(pn))
		}
		l.Count("targets_compared", int64(len(pn)))
	}
	// origins
	on := run.Call(wn, run.Query{Kind: run.CollectOrigins})
	oj := run.Call(wj, run.Query{Kind: run.CollectOrigins})
	l.Count("calls", 2)
	if on.Panic == nil && oj.Panic == nil {
		pn, pj := projectOrigins(on.Val.(reference.Origins)), projectOrigins(oj.Val.(reference.Origins))
		var an, aj []string
		for _, o := range pn {
			an = append(an, o.Addr)
		}
		for _, o := range pj {
			aj = append(aj, o.Addr)
		}
		if fmt.Sprint(an) != fmt.Sprint(aj) {
			bad("origins:addresses-differ", "origins", fmt.Sprintf("reference origins differ\n native: %v\n json:   %v", pn, pj))
		} else {
			for i := range pn {
				// documented loss of precision inside JSON strings: the JSON constraint may be the
				// unconstrained/dynamic one where native knows the precise type
				if pn[i].Cons != pj[i].Cons && !allDynamic(pj[i].Cons) {
					bad("origins:constraints-differ", "origins", fmt.Sprintf("origin %s: native constraints [%s], json [%s]", pn[i].Addr, pn[i].Cons, pj[i].Cons))
				}
			}
		}
		l.Count("origins_compared", int64(len(pn)))
	}
	// symbol outline
	sn := run.Call(wn, run.Query{Kind: run.SymbolsWS, Query: ""})
	sj := run.Call(wj, run.Query{Kind: run.SymbolsWS, Query: ""})
	l.Count("calls", 2)
	if sn.Panic == nil && sj.Panic == nil {
		a, _ := sn.Val.([]decoder.Symbol)
		b, _ := sj.Val.([]decoder.Symbol)
		pn, pj := projectSymbols(a), projectSymbols(b)
		// JSON object members have no order guarantees beyond the file's; compare as sorted outlines
		if fmt.Sprint(sortSyms(pn)) != fmt.Sprint(sortSyms(pj)) {
			bad("symbols:outline-differs", "symbols", fmt.Sprintf("symbol outlines differ\n native: %v\n json:   %v", pn, pj))
		}
		l.Count("symbols_compared", int64(len(pn)))
		// source order: where the configuration keeps the blocks of one type together (so that the JSON
		// rendering lists its members in the same order as the native one) the outlines are equal as sequences
		if grouped(cfg) && fmt.Sprint(pn) != fmt.Sprint(pj) && fmt.Sprint(sortSyms(pn)) == fmt.Sprint(sortSyms(pj)) {
			bad("symbols:order-differs", "symbols", fmt.Sprintf("symbol outlines list the same items in different orders\n native: %v\n json:   %v", pn, pj))
		}
		l.Count("symbol_orders_compared", 1)
	}
}

// grouped: in every body, the blocks of one type are adjacent and attributes do not sit between them.
func grouped(items []citem) bool {
	closed := map[string]bool{}
	prev := ""
	for _, it := range items {
		cur := "attr:" + it.attr
		if it.block != "" {
			cur = "block:" + it.block
			if !grouped(it.body) {
				return false
			}
		}
		if cur != prev {
			if closed[cur] {
				return false
			}
			if prev != "" {
				closed[prev] = true
			}
		}
		prev = cur
	}
	return true
}

// allDynamic: every constraint of the (comma separated) list is the unconstrained / dynamic one.
func allDynamic(cons string) bool {
	for _, c := range strings.Split(cons, ",") {
		if c != "/dynamic" && c != "" {
			return false
		}
	}
	return true
}

func sortSyms(s []projSym) []projSym {
	out := append([]projSym{}, s...)
	for i := range out {
		out[i].Nested = sortSyms(out[i].Nested)
	}
	sort.Slice(out, func(i, j int) bool { return out[i].Kind+out[i].Name < out[j].Kind+out[j].Name })
	return out
}

func firstTargetDiff(a, b []projTarget) string {
	m := map[string]string{}
	for _, t := range a {
		m[t.Addr+"|"+t.Type] = fmt.Sprint(t)
	}
	for _, t := range b {
		if m[t.Addr+"|"+t.Type] != fmt.Sprint(t) {
			return "targets:" + strings.SplitN(t.Addr, ".", 2)[0]
		}
		delete(m, t.Addr+"|"+t.Type)
	}
	for k := range m {
		return "targets:" + strings.SplitN(k, ".", 2)[0]
	}
	return "targets"
}

// C19: JSON and native syntax yield the same reference graph.
func C19(tier string) int {
	c := report.NewCollector("C19")
	cfgs := append(c19Configs(), c19MoreConfigs()...)
	explore.ParallelEach(len(cfgs)*2, c, explore.Deadline(tier), func(i int, l *report.Local) {
		c19Pair(cfgs[i/2], i%2 == 1, c, l)
	})
	// part 2: every constraint of the catalogue x every value form both syntaxes express x the three places
	var cons []gen.Entry
	for _, e := range gen.Catalogue(tier) {
		if e.Family == "cons" {
			e.Extra = nil
			cons = append(cons, e)
		}
	}
	forms := c19ConsForms()
	explore.ParallelEach(len(cons)*len(forms), c, explore.Deadline(tier), func(i int, l *report.Local) {
		ent := cons[i/len(forms)]
		for ci, cfg := range c19ConsConfigs(forms[i%len(forms)]) {
			if ci >= 3 && strings.HasSuffix(ent.ID, "/-") {
				// count / for_each are unknown attributes in a body without those extensions, and attributes the
				// schema does not know are no construct JSON can express (JSON bodies are decoded through the schema)
				continue
			}
			c19PairIn(ent, cfg, false, c, l)
		}
		l.Count("constraint_pairs", 5)
	})
	c19JSONOriginText(c)
	c.Sample(map[string]any{"native": renderNative(cfgs[0], ""), "json": func() string { b, _ := json.Marshal(renderJSON(cfgs[0], false)); return string(b) }()})
	_ = lang.Path{}
	return c.Finish(report.FinishOpts{
		Tier: tier, Level: "exploration", EvalCounter: "calls",
		Rule:         "E2 differential: abstract configurations over the constructs both syntaxes express (blocks with 0-2 labels, several blocks of a type, literals of all types, lists/maps/objects nested, references as \"${...}\" templates and legacy bare strings, templates with surrounding text, any-attribute bodies) rendered twice (native; JSON in object form and in array form) under one schema with addressable blocks (as reference, body-as-data with inferred list/object nested blocks), addressable attributes (as reference + expression type) and every constraint kind; oracle: equal projections of absolute targets (address, type, scope, name, nesting), of local origins (addresses equal; constraints equal or the JSON one is the unconstrained/dynamic one), and of the symbol outline (kind, name, nesting). Part 2: every one-constraint body of the catalogue (all constraint kinds and nestings of the tier) x 19 value forms both syntaxes express (strings not spelled like a traversal, numbers, booleans, references, templates, lists/objects nested, empty collections) x 3 places (root attribute, addressable root attribute, block attribute + nested block attribute inside an inferred, self-referable body), same oracle. Symbol order: where a configuration keeps blocks of one type together the outlines are equal as sequences. non-trivial = non-empty target projection",
		BiteCounters: []string{"pairs", "constraint_pairs", "targets_compared", "origins_compared", "symbols_compared", "symbol_orders_compared"},
	})
}

// c19JSONOriginText (part 3): in JSON files the bytes an origin's range covers - JSON escapes resolved - spell the
// address the origin carries. JSON strings may hold escapes (\" in index keys, \uXXXX anywhere), so positions in
// the decoded text are no positions in the file.
func c19JSONOriginText(c *report.Collector) {
	l := report.NewLocal()
	defer c.Merge(l)
	ent := gen.Entry{ID: "J:c19", Mk: c19Schema, Family: "struct", Hooks: -1}
	values := []string{`var.a`, `var.\u0061`, `v\u0061r.a`, `var.a[\"k\"]`, `var.a[0]`, `var.\u00e9`, `${var.a}`, `${var.\u0061}`, `${var.a[\"k\"]}`, `x-${var.a}-\u00e9-${var.a}`, `\u00e9${var.a}`, `\n${var.a}`}
	for _, v := range values {
		for _, attr := range []string{"r", "s", "n"} {
			text := "{\n  \"variable\": {\"a\": {}, \"\u00e9\": {}},\n  \"" + attr + "\": \"" + v + "\",\n  \"lst\": [\"" + v + "\"]\n}\n"
			w := world.Build(explore.EntrySpec(&ent, []world.FileSpec{{Name: "main.tf.json", Text: text}}))
			l.Count("calls", 1)
			l.Count("json_origin_texts", 1)
			for _, o := range w.Ctx(0).ReferenceOrigins {
				r := o.OriginRange()
				addr := ""
				switch x := o.(type) {
				case reference.LocalOrigin:
					addr = x.Addr.String()
				default:
					continue
				}
				bad := ""
				if r.Filename != "main.tf.json" || r.Start.Byte < 0 || r.End.Byte > len(text) || r.Start.Byte > r.End.Byte {
					bad = "range outside the file"
				} else {
					raw := text[r.Start.Byte:r.End.Byte]
					var dec string
					if err := json.Unmarshal([]byte("\""+raw+"\""), &dec); err != nil {
						bad = fmt.Sprintf("the covered bytes %q are no piece of a JSON string", raw)
					} else if tr, d := hclsyntax.ParseTraversalAbs([]byte(dec), "x", hcl.InitialPos); d.HasErrors() {
						bad = fmt.Sprintf("the covered bytes %q (decoded %q) are no traversal", raw, dec)
					} else if a, err := lang.TraversalToAddress(tr); err != nil || a.String() != addr {
						bad = fmt.Sprintf("the covered bytes %q spell %q, the origin is %q", raw, dec, addr)
					} else if !run.ColumnsAgree([]byte(text), r.Start) || !run.ColumnsAgree([]byte(text), r.End) {
						bad = fmt.Sprintf("line/column of %s do not belong to its bytes", fmtRange(r))
					}
				}
				site := "legacy-string"
				if strings.Contains(v, "${") {
					// positions of an interpolated traversal come from hcl's JSON expression itself, which parses the
					// decoded string (the loss of precision inside JSON strings the property mentions): counted, not claimed
					if bad != "" {
						l.Count("imprecise_ranges_inside_json_templates", 1)
					}
					continue
				}
				if bad != "" {
					c.Add(&report.Violation{Clause: "json:origin-range-is-not-the-reference", Site: site, Check: "c19", SchemaID: ent.ID,
						Files:  []report.FileSpec{{Path: "/p0", Name: "main.tf.json", Text: text}},
						Detail: fmt.Sprintf("origin %s at %s: %s\nfile:\n%s", addr, fmtRange(r), bad, text)})
				}
			}
		}
	}
}
