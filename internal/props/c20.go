package props

import (
	"fmt"
	"strings"

	"github.com/hashicorp/hcl-lang/lang"
	"github.com/hashicorp/hcl-lang/schema"
	"github.com/hashicorp/hcl/v2"
	"github.com/hashicorp/hcl/v2/hclsyntax"
	"github.com/zclconf/go-cty/cty"
	"github.com/zclconf/go-cty/cty/function"

	"verif/internal/explore"
	"verif/internal/gen"
	"verif/internal/report"
	"verif/internal/run"
	"verif/internal/world"
)

// c20Functions: fixed params 0..3 x variadic no/yes, namespaced.
func c20Functions() map[string]schema.FunctionSignature {
	p := func(n string) function.Parameter {
		return function.Parameter{Name: n, Type: cty.DynamicPseudoType, Description: "param " + n}
	}
	v := &function.Parameter{Name: "rest", Type: cty.DynamicPseudoType}
	// two signatures whose fixed parameters are sub-slices of one table (spare capacity behind the shorter one)
	table := []function.Parameter{p("t1"), p("t2"), p("t3")}
	return map[string]schema.FunctionSignature{
		"s1":     {ReturnType: cty.String, Params: table[:1], VarParam: v},
		"s3":     {ReturnType: cty.String, Params: table[:3]},
		"f0":     {ReturnType: cty.String, Description: "f0"},
		"f1":     {ReturnType: cty.String, Params: []function.Parameter{p("a")}},
		"f2":     {ReturnType: cty.String, Params: []function.Parameter{p("a"), p("b")}},
		"f3":     {ReturnType: cty.String, Params: []function.Parameter{p("a"), p("b"), p("c")}},
		"v0":     {ReturnType: cty.String, VarParam: v},
		"v1":     {ReturnType: cty.String, Params: []function.Parameter{p("a")}, VarParam: v},
		"v2":     {ReturnType: cty.String, Params: []function.Parameter{p("a"), p("b")}, VarParam: v},
		"ns::f2": {ReturnType: cty.String, Params: []function.Parameter{p("a"), p("b")}},
	}
}

// c20Calls enumerates call expressions: every function x argument counts 0..4 x argument menu,
// nested to the given depth.
func c20Calls(depth int) []string {
	atoms := []string{`1`, `"s"`, `x.y`, `[1, 2]`, `{ a = 1 }`, `"a,(b)"`}
	names := []string{"f0", "f1", "f2", "f3", "v0", "v1", "v2", "ns::f2", "unk"}
	var level [][]string
	level = append(level, atoms)
	for d := 1; d <= depth; d++ {
		prev := level[d-1]
		// representative inner expressions: two atoms/calls from the previous level + one nested call chain
		inner := []string{prev[0], prev[len(prev)-1]}
		if d >= 2 {
			inner = append(inner, prev[len(prev)/2])
		}
		var cur []string
		for _, n := range names {
			for argc := 0; argc <= 4; argc++ {
				// all assignments of `inner` to the argument slots for argc <= 2, a rotation for more
				if argc == 0 {
					cur = append(cur, n+"()")
					continue
				}
				var rec func(args []string)
				rec = func(args []string) {
					if len(args) == argc {
						cur = append(cur, n+"("+strings.Join(args, ", ")+")")
						return
					}
					if argc > 2 {
						rec(append(args, inner[len(args)%len(inner)]))
						return
					}
					for _, a := range inner {
						rec(append(append([]string{}, args...), a))
					}
				}
				rec(nil)
				if d == 1 && argc <= 2 {
					for _, a := range atoms {
						args := make([]string, argc)
						for i := range args {
							args[i] = a
						}
						cur = append(cur, n+"("+strings.Join(args, ",")+")")
					}
				}
			}
		}
		level = append(level, cur)
	}
	var out []string
	for d := 1; d <= depth; d++ {
		out = append(out, level[d]...)
	}
	// layout variants of a few calls
	out = append(out, "f2(\n  1,\n  2\n)", "v1( 1 , 2 , 3 )", "f3(f1(1), f2(1, f1(2)), 3)", "f2(1, f1(\"x\", \"y\"))", "f1(f2(1, 2, 3))", "unk(f2(1, 2))", "f2(unk(1, 2, 3), 2)", "f0(1)", "f1(f0())",
		// a known call with parameters in a later slot of the enclosing call, the cursor in front of its first argument
		"f2(1, f1 (2))", "f2(f1  (1), 2)", "v1(1, f2 (1, 2), 3)",
		"f2(1, f1())", "f3(1, 2, f2( 1, 2))", "f2(1, v1())", "f3(1, f1( ), 3)", "v2(1, 2, 3, f2())",
		"f2(1, )", "f3(1, 2, )", "f2(f2(1, ), 2)", "v1(f2(1, ), 2)", "f3([f2(1, )], 2, 3)", "v2(1, 2, 3, )", "f2(f3(1, 2, ), f1(1, ))", "f2( f1( 1 ) , )",
		// signatures sharing a parameter table, one asked after the other
		"s3(s1(1, 2), 2, 3)", "s3(1, s1(1), 3)", "s1(s3(1, 2, 3), 2)",
		// CRLF line endings and comments between the arguments
		"f2(1,\r\n  )", "f2(\r\n  1,\r\n  2\r\n)", "f3(1,\r\n  2,\r\n  )", "f2(1, # c\n  )", "f2(1, /* c */ )", "f3(1, /* a, b */ 2, )", "f2(1, // c, d\n  2)", "f2(f1(1), # c\n  )", "v1(1, 2, /* c */ )")
	return out
}

// commasBefore counts the commas at nesting depth 0 in text[from:to] (strings and brackets skipped).
func commasBefore(text string, from, to int) int {
	n, depth := 0, 0
	inStr := false
	for i := from; i < to && i < len(text); i++ {
		ch := text[i]
		if inStr {
			if ch == '\\' {
				i++
			} else if ch == '"' {
				inStr = false
			}
			continue
		}
		// comments are not arguments
		if ch == '#' || (ch == '/' && i+1 < len(text) && text[i+1] == '/') {
			for i < to && i < len(text) && text[i] != '\n' {
				i++
			}
			continue
		}
		if ch == '/' && i+1 < len(text) && text[i+1] == '*' {
			i += 2
			for i+1 < len(text) && i < to && !(text[i] == '*' && text[i+1] == '/') {
				i++
			}
			i++
			continue
		}
		switch ch {
		case '"':
			inStr = true
		case '(', '[', '{':
			depth++
		case ')', ']', '}':
			depth--
		case ',':
			if depth == 0 {
				n++
			}
		}
	}
	return n
}

type c20Expect struct {
	must    bool // a definite answer is known (false = boundary position, either accepted)
	sigName string
	active  int
	nparams int
	none    bool
}

// c20Model: expected signature at pos from the syntax tree and the statement.
func c20Model(body *hclsyntax.Body, text string, pos int, fns map[string]schema.FunctionSignature) c20Expect {
	var calls []*hclsyntax.FunctionCallExpr
	_ = hclsyntax.VisitAll(body, func(n hclsyntax.Node) hcl.Diagnostics {
		if fc, ok := n.(*hclsyntax.FunctionCallExpr); ok {
			calls = append(calls, fc)
		}
		return nil
	})
	// innermost known call whose parentheses (or, if parameterless, whose extent) contain pos
	var best *hclsyntax.FunctionCallExpr
	boundary := false
	insideUnclosed := false
	for _, fc := range calls {
		f, known := fns[fc.Name]
		if !known {
			continue
		}
		open, cls := fc.OpenParenRange, fc.CloseParenRange
		if cls.End.Byte <= cls.Start.Byte {
			// an unclosed call: no claim about positions that are only inside it; a complete call nested in it
			// is still a call the cursor can be inside of
			if pos >= open.Start.Byte {
				insideUnclosed = true
			}
			continue
		}
		inside := pos >= open.End.Byte && pos <= cls.Start.Byte
		if len(f.Params) == 0 && f.VarParam == nil {
			r := fc.Range()
			inParens := inside
			inside = pos > r.Start.Byte && pos < r.End.Byte
			if pos == r.Start.Byte || pos == r.End.Byte {
				boundary = true
			}
			if len(fc.Args) > 0 && inside && !inParens {
				// on the name of a parameterless call that was given arguments: "on a call of a known
				// parameterless function" and "more arguments than parameters" both apply - either answer
				boundary = true
			}
		} else if pos == open.Start.Byte || pos == cls.End.Byte {
			boundary = true // right before '(' / right after ')': the statement's "inside" is silent
		}
		if inside {
			if best == nil || (fc.Range().Start.Byte >= best.Range().Start.Byte && fc.Range().End.Byte <= best.Range().End.Byte) {
				best = fc
			}
		}
	}
	// a cursor strictly inside a comment is not typing any argument: either answer is accepted there
	toks, _ := hclsyntax.LexConfig([]byte(text), "main.tf", hcl.InitialPos)
	for _, t := range toks {
		if t.Type == hclsyntax.TokenComment && t.Range.Start.Byte < pos && pos < t.Range.End.Byte {
			boundary = true
		}
	}
	if best == nil {
		return c20Expect{must: !boundary && !insideUnclosed, none: true}
	}
	// a boundary position of a call nested inside `best` is still ambiguous
	f := fns[best.Name]
	np := len(f.Params)
	if f.VarParam != nil {
		np++
	}
	if len(f.Params) == 0 && f.VarParam == nil {
		if len(best.Args) > 0 {
			// more arguments than parameters and no variadic one: none
			return c20Expect{must: !boundary, none: true}
		}
		return c20Expect{must: !boundary, sigName: best.Name, nparams: 0}
	}
	slot := commasBefore(text, best.OpenParenRange.End.Byte, pos)
	if slot >= np {
		if f.VarParam == nil {
			return c20Expect{must: !boundary, none: true}
		}
		slot = np - 1
	}
	return c20Expect{must: !boundary, sigName: best.Name, active: slot, nparams: np}
}

func paramNames(f schema.FunctionSignature) []string {
	var out []string
	for _, p := range f.Params {
		out = append(out, p.Name)
	}
	if f.VarParam != nil {
		out = append(out, f.VarParam.Name)
	}
	return out
}

func sigParamNames(s *lang.FunctionSignature) []string {
	var out []string
	for _, p := range s.Parameters {
		out = append(out, p.Name)
	}
	return out
}

func c20Exact(c *report.Collector, tier string) {
	depth := 2
	if tier == "thorough" {
		depth = 3
	}
	calls := c20Calls(depth)
	// half-typed outer calls around complete inner ones (the only files with parse errors that are compared)
	halfTyped := map[string]bool{}
	for _, h := range []string{"f2(f1(1), ", "f2(f1(1), \n", "f2(\"s\", [f1(1), )", "f3(f2(1, 2), v1(1", "f2(f1(1)", "f1(f2(1, 2", "v2(1, f3(1, 2, 3), "} {
		// (calls with a slot left empty between two commas - f2(1, , ) - are outside the alphabet: the statement lists
		// trailing commas and missing parentheses as the half-typed forms, and the parser drops the empty slot)
		halfTyped[h] = true
		calls = append(calls, h)
	}
	fns := c20Functions()
	ent := gen.Entry{ID: "F:c20", Mk: func() *schema.BodySchema {
		return &schema.BodySchema{
			Attributes: map[string]*schema.AttributeSchema{"attr": {Constraint: schema.AnyExpression{OfType: cty.String}, IsOptional: true}},
			Blocks:     map[string]*schema.BlockSchema{"blk": {Body: &schema.BodySchema{Attributes: map[string]*schema.AttributeSchema{"lit": {Constraint: schema.LiteralType{Type: cty.Number}, IsOptional: true}}}}},
		}
	}, Family: "struct", Hooks: -1}
	explore.ParallelEach(len(calls), c, explore.Deadline(tier), func(i int, l *report.Local) {
		for _, tmpl := range []string{"attr = %s\n", "blk {\n  lit = %s\n}\n", "unknown_attr = [%s, f1(1)]\n"} {
			text := fmt.Sprintf(tmpl, calls[i])
			sp := &world.Spec{SchemaID: ent.ID, HookItems: -1, Paths: []world.PathSpec{{Path: "/p0", Schema: ent.Mk, Files: []world.FileSpec{{Name: "main.tf", Text: text}}, Funcs: c20Functions}}}
			w := world.Build(sp)
			body, ok := w.Ctx(0).Files["main.tf"].Body.(*hclsyntax.Body)
			if !ok {
				continue
			}
			if _, d := hclsyntax.ParseConfig([]byte(text), "main.tf", hcl.InitialPos); d.HasErrors() && !halfTyped[calls[i]] {
				continue
			}
			for _, p := range run.AllPositions([]byte(text), false) {
				q := run.Query{Kind: run.Signature, File: "main.tf", Pos: p}
				r := run.Call(w, q)
				l.Count("calls", 1)
				if r.Panic != nil {
					continue
				}
				exp := c20Model(body, text, p.Byte, fns)
				if !exp.must {
					l.Count("boundary_positions", 1)
					continue
				}
				l.Count("exact_comparisons", 1)
				sig, _ := r.Val.(*lang.FunctionSignature)
				bad := ""
				clause := ""
				switch {
				case exp.none && sig != nil:
					clause, bad = "signature:unexpected", fmt.Sprintf("got %q active=%d, expected none", sig.Name, sig.ActiveParameter)
				case !exp.none && sig == nil:
					clause, bad = "signature:missing", fmt.Sprintf("got none, expected %s active=%d", exp.sigName, exp.active)
				case !exp.none:
					name := sig.Name
					if j := strings.Index(name, "("); j >= 0 {
						name = name[:j]
					}
					if name != exp.sigName {
						clause, bad = "signature:not-innermost", fmt.Sprintf("got %q, expected the innermost call %s", sig.Name, exp.sigName)
					} else if len(sig.Parameters) != exp.nparams {
						clause, bad = "signature:parameter-list", fmt.Sprintf("%d parameters, expected %d", len(sig.Parameters), exp.nparams)
					} else if want := paramNames(fns[exp.sigName]); fmt.Sprint(sigParamNames(sig)) != fmt.Sprint(want) {
						clause, bad = "signature:parameter-names", fmt.Sprintf("%s lists the parameters %v, the function declares %v (fixed parameters followed by the variadic one)", sig.Name, sigParamNames(sig), want)
					} else if int(sig.ActiveParameter) != exp.active {
						clause, bad = "signature:active-parameter", fmt.Sprintf("%s: active=%d, expected %d", sig.Name, sig.ActiveParameter, exp.active)
					}
				}
				if bad != "" {
					c.Add(&report.Violation{Clause: clause, Site: "signature", Check: "c20", SchemaID: ent.ID, Files: []report.FileSpec{{Path: "/p0", Name: "main.tf", Text: text}}, Query: report.J(q),
						Detail: fmt.Sprintf("%s: %s\nfile:\n%s", q, bad, text)})
				} else if !exp.none {
					l.Count("nontrivial", 1)
					l.Outcome(fmt.Sprint(exp.sigName, exp.active, exp.nparams))
					l.Count("signatures", 1)
				}
			}
		}
	})
	c.Sample(map[string]any{"call": calls[len(calls)/3], "oracle": "innermost known call whose parentheses contain the cursor; active = commas before the cursor at that call's level, clamped to the variadic parameter; none if slot >= parameters without variadic"})
}
