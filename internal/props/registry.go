package props

// Registry maps property ids to their checks.
var Registry = map[string]func(tier string) int{
	"C01": C01,
}
