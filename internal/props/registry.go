package props

import (
	"verif/internal/explore"
	"verif/internal/report"
	"verif/internal/run"
)

// Registry maps property ids to their checks.
var Registry = map[string]func(tier string) int{
	"C01": C01,
	"C02": C02,
	"C03": C03,
	"C04": C04,
	"C05": C05,
	"C06": C06,
	"C07": C07,
	"C08": C08,
	"C09": C09,
	"C10": C10,
	"C11": C11,
	"C12": C12,
	"C13": C13,
	"C14": C14,
	"C15": C15,
	"C16": C16,
	"C17": C17,
	"C18": C18,
	"C19": C19,
	"C20": C20,
}

func C06(tier string) int {
	return sweepCheck("C06", tier, []run.Kind{run.Completion, run.CompletionPrefill},
		explore.CaseOpts{Prefixes: true, Edits: tier == "thorough", Seqs: tier == "thorough"}, c06Result,
		report.FinishOpts{Level: "exploration",
			Rule:         "E1 sweep, completion with prefill off/on at every rune-boundary cursor of every file (valid and broken); per candidate: edit in requested file, range well formed, starts at/before cursor, reaches cursor up to blanks, no tab-stop syntax in plain text, snippet stops consecutive and unique; list <= 100; non-trivial = non-empty candidate list",
			Assumptions:  []string{"catalogue literal values and hook texts contain no '$' so any tab-stop syntax in NewText is the library's", "population worlds: 14 producer scenarios x populations {0,1,99,100,101,250} x prefill off/on: len<=100; IsComplete implies no hook configured and returned == population (counted by construction)"},
			BiteCounters: []string{"candidates", "population_worlds"}}, func(c *report.Collector) { c06Population(c, tier) })
}

func C12(tier string) int {
	return sweepCheck("C12", tier, []run.Kind{run.Hover},
		explore.CaseOpts{Prefixes: true, Edits: tier == "thorough", Seqs: tier == "thorough"}, c12Safety,
		report.FinishOpts{Level: "exploration",
			Rule:         "E1 sweep, hover at every rune-boundary cursor of every file: result is nil/error, or non-empty content with a well-formed range in the requested file containing the cursor; non-trivial = hover data returned",
			BiteCounters: []string{"hovers"}}, nil)
}

func C13(tier string) int {
	return sweepCheck("C13", tier, []run.Kind{run.SemTok},
		explore.CaseOpts{Prefixes: true, Edits: true, Seqs: true}, c13Structural,
		report.FinishOpts{Level: "exploration",
			Rule:         "E1 sweep, semantic tokens of every file (valid and broken), with targets/origins collected: sorted by start, pairwise disjoint, non-empty, advertised types, ranges well formed; non-trivial = at least one token",
			BiteCounters: []string{"tokens"}}, nil)
}

func C20(tier string) int {
	return sweepCheck("C20", tier, []run.Kind{run.Signature},
		explore.CaseOpts{Prefixes: true, Edits: true, Seqs: tier == "thorough"}, c20Safety,
		report.FinishOpts{Level: "exploration",
			Rule:         "(safety, all files incl. half-typed calls) E1 sweep, signature help at every cursor: a returned signature names a known function, lists fixed+variadic parameters and has a valid active index. (exactness, complete calls) function set {0..3 fixed params} x {no variadic, variadic} + namespaced + unknown x call grammar (0..4 arguments from literal/traversal/tuple/object/string-with-commas/nested call, nesting <= 2 (quick) / 3 (thorough), layout variants) placed in 3 contexts x every cursor: result == model (innermost known call whose parentheses contain the cursor; active = own commas before the cursor, clamped to the variadic parameter; none when slot >= parameters without variadic); positions right before '(' / right after ')' are boundary positions (either answer). non-trivial = signature returned",
			BiteCounters: []string{"signatures", "exact_comparisons"}}, func(c *report.Collector) { c20Exact(c, tier) })
}
