package props

import (
	"encoding/json"
	"fmt"
	"os"

	"verif/internal/explore"
	"verif/internal/gen"
	"verif/internal/report"
	"verif/internal/run"
	"verif/internal/world"
)

// Replay re-executes the witnesses of a replay file without any exploration. Exit 1 if the
// violation reproduces, 0 if not.
func Replay(prop, path string) int {
	b, err := os.ReadFile(path)
	if err != nil {
		fmt.Fprintln(os.Stderr, err)
		return 2
	}
	var f struct {
		Signature string              `json:"signature"`
		Witnesses []*report.Violation `json:"witnesses"`
	}
	if err := json.Unmarshal(b, &f); err != nil {
		fmt.Fprintln(os.Stderr, err)
		return 2
	}
	repro := 0
	for _, v := range f.Witnesses {
		if v.Check != "sweep" {
			fmt.Printf("witness of sub-check %q: re-run the check to reproduce (%s)\n", v.Check, v.Detail)
			continue
		}
		e, ok := gen.Find(v.SchemaID)
		if !ok {
			fmt.Fprintf(os.Stderr, "unknown schema id %q\n", v.SchemaID)
			return 2
		}
		var files []world.FileSpec
		for _, fl := range v.Files {
			files = append(files, world.FileSpec{Name: fl.Name, Text: fl.Text})
		}
		var q run.Query
		_ = json.Unmarshal(v.Query, &q)
		w := world.Build(explore.EntrySpec(&e, files))
		r := run.Call(w, q)
		fmt.Printf("replay %s on schema %s:\n  result: %s\n", q, v.SchemaID, trunc(run.CanonResult(r), 400))
		if r.Panic != nil {
			repro++
		}
	}
	if repro > 0 {
		fmt.Printf("VIOLATION property=%s replay=%s\n", prop, path)
		return 1
	}
	return 0
}
