package props

import (
	"fmt"
	"regexp"
	"sort"
	"strconv"
	"strings"
	"unicode/utf8"

	"github.com/hashicorp/hcl-lang/lang"
	"github.com/hashicorp/hcl/v2"
	"github.com/hashicorp/hcl/v2/hclsyntax"

	"verif/internal/explore"
	"verif/internal/gen"
	"verif/internal/report"
	"verif/internal/run"
	"verif/internal/world"
)

// ---- C02: range well-formedness -----------------------------------------------------------------

// rangeProblem checks one range against the file it names. Returns "" if fine.
func rangeProblem(w *world.World, path string, r hcl.Range) string {
	files, ok := w.TextsByDir(path)
	if !ok {
		return "path-unknown"
	}
	text, ok := files[r.Filename]
	if !ok {
		return "file-not-in-path"
	}
	n := len(text)
	switch {
	case r.Start.Byte < 0 || r.End.Byte < 0:
		return "negative-offset"
	case r.Start.Byte > r.End.Byte && r.End == (hcl.Pos{}):
		// the parser's recovery of an unclosed call/collection leaves a zero end position
		return "end-is-zero-pos"
	case r.Start.Byte > r.End.Byte:
		return "start>end"
	case r.End.Byte > n:
		return "end>len"
	}
	if world.IsJSON(r.Filename) {
		return ""
	}
	src := []byte(text)
	if !utf8.Valid(src) {
		// a buffer cut inside a multi-byte character: lines/columns (grapheme clusters) of the
		// tail are not well defined; only file and byte bounds are checked
		return ""
	}
	if !run.RuneBoundary(src, r.Start.Byte) || !run.RuneBoundary(src, r.End.Byte) {
		return "mid-rune"
	}
	if !run.ColumnsAgree(src, r.Start) {
		return "start-linecol"
	}
	if !run.ColumnsAgree(src, r.End) {
		return "end-linecol"
	}
	return ""
}

var reIndex = regexp.MustCompile(`\[\d+(:[^\]]*)?\]`)

// whereClass strips indices from a range locator so that signatures are input-independent.
func whereClass(where string) string { return reIndex.ReplaceAllString(where, "[]") }

func c02Result(cx *explore.Ctx, q run.Query, r run.Result) {
	if r.Panic != nil || r.Val == nil {
		return
	}
	refs := run.Ranges(q, "/p0", r.Val)
	for _, rr := range refs {
		cx.L.Count("ranges", 1)
		if rr.Passthrough || rr.R == gen.SentinelRange {
			cx.L.Count("ranges_passthrough", 1)
			continue
		}
		if p := rangeProblem(cx.W, rr.Path, rr.R); p != "" {
			v := witness(cx, "sweep", q)
			v.Clause = "range:" + p
			v.Site = kindClass(q.Kind) + ":" + whereClass(rr.Where)
			v.Detail = fmt.Sprintf("%s: %s = %s (path %s) is not a self-consistent place; expected pos of start byte: %+v, of end byte: %+v\nfile:\n%s",
				q, rr.Where, fmtRange(rr.R), rr.Path, run.PosAt(cx.Src, rr.R.Start.Byte), run.PosAt(cx.Src, rr.R.End.Byte), cx.Case.Text)
			cx.C.Add(v)
		}
	}
	if len(refs) > 0 {
		cx.L.Count("nontrivial", 1)
		h, _ := run.Hash(r)
		cx.L.OutcomeHash(h)
		if cx.L.Counters["nontrivial"]%300000 == 1 {
			cx.C.Sample(map[string]any{"schema": cx.Case.Entry.ID, "file": cx.Case.Text, "query": q.String(), "ranges": len(refs), "first": fmtRange(refs[0].R)})
		}
	}
}

// kindClass merges the two completion variants (they share the code that computes ranges).
func kindClass(k run.Kind) string {
	if k == run.CompletionPrefill {
		return string(run.Completion)
	}
	return string(k)
}

func fmtRange(r hcl.Range) string {
	return fmt.Sprintf("%s[%d:%d@%d - %d:%d@%d]", r.Filename, r.Start.Line, r.Start.Column, r.Start.Byte, r.End.Line, r.End.Column, r.End.Byte)
}

// nodeClass describes the constraint under test for cons-family cases (part of a signature's
// input class); empty for structure templates.
func nodeClass(cx *explore.Ctx, q run.Query) string {
	if cx.Case.Entry.Cons == nil {
		return ""
	}
	n := cx.Case.Entry.Cons.Name
	if i := strings.IndexAny(n, "{"); i > 0 {
		n = n[:i]
	}
	return "/" + n
}

func C02(tier string) int {
	c := report.NewCollector("C02")
	groups := explore.Groups(explore.CaseOpts{Tier: tier, Prefixes: true, Edits: tier == "thorough", Seqs: tier == "thorough", JSON: true})
	groups = append(groups, func() []explore.Case { return jsonCases(tier) })
	explore.SweepGroups(groups, c, explore.Deadline(tier), explore.Opts{
		Kinds:    allKinds,
		OnResult: c02Result,
	})
	return c.Finish(report.FinishOpts{
		Tier: tier, Level: "exploration", EvalCounter: "calls",
		Rule: "E1 sweep (rune-boundary cursors) with a typed range extractor over every result value: candidates' edits, hover, tokens, symbols (recursively), targets (range/def/targetable-from, nested), origins, lookups, links, diagnostics; each range checked for file-of-path, 0<=start<=end<=len, and line/column recomputed independently from the bytes; non-trivial = result carried at least one range",
		Assumptions: []string{
			"column rule = grapheme clusters since line start + 1 (HCL scanner's rule), computed with textseg over the whole line",
			"ranges equal to the schema-supplied sentinel range are pass-through and exempt (property text)",
			"JSON files: file and byte bounds only",
		},
		BiteCounters: []string{"ranges"},
	})
}

// ---- C06 (per-candidate part) -----------------------------------------------------------------


// scanSnippet reads a snippet the way a client does: a backslash escapes the next character (so `\\$1` is a
// backslash followed by a live tab stop), `$n`, `${n}` and `${n:default}` are tab stops. It returns the tab-stop
// numbers in order of appearance and the text the snippet inserts when every stop keeps its default.
func scanSnippet(s string) (stops []int, rendered string) {
	var sb strings.Builder
	var rec func(i int, closeOn bool) int
	rec = func(i int, closeOn bool) int {
		for i < len(s) {
			c := s[i]
			switch {
			case c == '\\' && i+1 < len(s) && (s[i+1] == '$' || s[i+1] == '}' || s[i+1] == '\\'):
				sb.WriteByte(s[i+1])
				i += 2
			case c == '}' && closeOn:
				return i + 1
			case c == '$' && i+1 < len(s) && s[i+1] >= '0' && s[i+1] <= '9':
				j := i + 1
				for j < len(s) && s[j] >= '0' && s[j] <= '9' {
					j++
				}
				n, _ := strconv.Atoi(s[i+1 : j])
				stops = append(stops, n)
				i = j
			case c == '$' && i+2 < len(s) && s[i+1] == '{' && s[i+2] >= '0' && s[i+2] <= '9':
				j := i + 2
				for j < len(s) && s[j] >= '0' && s[j] <= '9' {
					j++
				}
				if j < len(s) && (s[j] == '}' || s[j] == ':') {
					n, _ := strconv.Atoi(s[i+2 : j])
					stops = append(stops, n)
					if s[j] == '}' {
						i = j + 1
					} else {
						i = rec(j+1, true)
					}
				} else {
					sb.WriteByte(c)
					i++
				}
			default:
				sb.WriteByte(c)
				i++
			}
		}
		return i
	}
	rec(0, false)
	return stops, sb.String()
}

// snippetStops returns the tab-stop numbers of a snippet in order of appearance.
func snippetStops(s string) []int {
	st, _ := scanSnippet(s)
	return st
}

// snippetProblem: numbers (0 aside) must be distinct and consecutive; ${0} at most once.
func snippetProblem(s string, label bool) string {
	stops := snippetStops(s)
	zero := 0
	var nz []int
	seen := map[int]bool{}
	for _, n := range stops {
		if n == 0 {
			zero++
			continue
		}
		if seen[n] {
			return fmt.Sprintf("duplicate-stop")
		}
		seen[n] = true
		nz = append(nz, n)
	}
	if zero > 1 {
		return "duplicate-final-stop"
	}
	sort.Ints(nz)
	for i := 1; i < len(nz); i++ {
		if nz[i] != nz[i-1]+1 {
			return "gap-in-stops"
		}
	}
	// the run starts at 1 (label candidates number the labels that follow the completed one from 2)
	if len(nz) > 0 && (nz[0] > 2 || nz[0] == 2 && !label) {
		return "stops-do-not-start-at-1"
	}
	return ""
}

func isBlank(b []byte) bool {
	for _, c := range b {
		if c != ' ' && c != '\t' {
			return false
		}
	}
	return true
}

func c06Result(cx *explore.Ctx, q run.Query, r run.Result) {
	if r.Panic != nil {
		return
	}
	cands, ok := r.Val.(lang.Candidates)
	if !ok {
		return
	}
	add := func(clause, site, detail string) {
		v := witness(cx, "sweep", q)
		v.Clause = clause
		v.Site = kindClass(q.Kind) + ":" + site
		v.Detail = fmt.Sprintf("%s: %s\nfile:\n%s", q, detail, cx.Case.Text)
		cx.C.Add(v)
	}
	if len(cands.List) > 100 {
		add("list:over-limit", "list", fmt.Sprintf("%d candidates", len(cands.List)))
	}
	for i := range cands.List {
		cd := &cands.List[i]
		cx.L.Count("candidates", 1)
		kind := cd.Kind.String()
		te := cd.TextEdit
		if te.Range.Filename != q.File {
			add("edit:wrong-file", kind, fmt.Sprintf("candidate %q edits %q", cd.Label, te.Range.Filename))
			continue
		}
		if p := rangeProblem(cx.W, "/p0", te.Range); p != "" {
			add("edit:range:"+p, kind, fmt.Sprintf("candidate %q edit range %s", cd.Label, fmtRange(te.Range)))
			continue
		}
		if te.Range.Start.Byte > q.Pos.Byte {
			add("edit:starts-after-cursor", kind, fmt.Sprintf("candidate %q edit range %s, cursor at byte %d", cd.Label, fmtRange(te.Range), q.Pos.Byte))
		} else if te.Range.End.Byte < q.Pos.Byte && !isBlank(cx.Src[te.Range.End.Byte:q.Pos.Byte]) {
			add("edit:ends-before-cursor", kind, fmt.Sprintf("candidate %q edit range %s does not reach the cursor at byte %d (non-blank text %q in between)",
				cd.Label, fmtRange(te.Range), q.Pos.Byte, cx.Src[te.Range.End.Byte:q.Pos.Byte]))
		}
		// (a "${" that HCL-escapes a literal "${" of the value - written "$${" - is text, not a tab stop)
		if st := snippetStops(strings.ReplaceAll(te.NewText, "$${", "")); len(st) > 0 {
			add("newtext:tab-stop-syntax", kind, fmt.Sprintf("candidate %q plain text %q contains tab-stop syntax", cd.Label, te.NewText))
		}
		// a snippet without tab stops has nothing to fill in: it inserts the plain text
		valueKind := false
		switch cd.Kind {
		case lang.StringCandidateKind, lang.NumberCandidateKind, lang.BoolCandidateKind, lang.ListCandidateKind, lang.SetCandidateKind,
			lang.TupleCandidateKind, lang.MapCandidateKind, lang.ObjectCandidateKind:
			valueKind = true // (attribute and block candidates add ` = ` / braces in the snippet form only)
		}
		if stops, rendered := scanSnippet(te.Snippet); valueKind && te.Snippet != "" && len(stops) == 0 && rendered != te.NewText {
			add("snippet:inserts-other-text-than-plain", kind, fmt.Sprintf("candidate %q: the snippet %q has no tab stop and inserts %q, the plain text is %q", cd.Label, te.Snippet, rendered, te.NewText))
		}
		if p := snippetProblem(te.Snippet, cd.Kind == lang.LabelCandidateKind); p != "" {
			add("snippet:"+p, kind, fmt.Sprintf("candidate %q snippet %q", cd.Label, te.Snippet))
		}
		for _, ae := range cd.AdditionalTextEdits {
			if p := rangeProblem(cx.W, "/p0", ae.Range); p != "" {
				add("additional-edit:range:"+p, kind, fmt.Sprintf("candidate %q additional edit %s", cd.Label, fmtRange(ae.Range)))
			}
		}
	}
	if len(cands.List) > 0 {
		cx.L.Count("nontrivial", 1)
		h, _ := run.Hash(r)
		cx.L.OutcomeHash(h)
		if cx.L.Counters["nontrivial"]%100000 == 1 {
			cx.C.Sample(map[string]any{"schema": cx.Case.Entry.ID, "file": cx.Case.Text, "query": q.String(), "candidates": len(cands.List), "first": cands.List[0].Label, "snippet": cands.List[0].TextEdit.Snippet})
		}
	}
}

// ---- C12 (safety part) ----------------------------------------------------------------------

func c12Safety(cx *explore.Ctx, q run.Query, r run.Result) {
	if r.Panic != nil {
		return
	}
	// exactness on files that parse cleanly (cached per world)
	if _, done := cx.Store["clean"]; !done {
		cx.Store["clean"] = false
		if f := cx.W.Ctx(0).Files[q.File]; f != nil {
			if body, ok := f.Body.(*hclsyntax.Body); ok {
				if _, pd := hclsyntax.ParseConfig(cx.Src, q.File, hcl.InitialPos); !pd.HasErrors() {
					cx.Store["clean"] = true
					cx.Store["body"] = body
				}
			}
		}
	}
	if cx.Store["clean"].(bool) && q.Kind == run.Hover {
		c12Exact(cx, q, r, cx.Store["body"].(*hclsyntax.Body))
	}
	hd, ok := r.Val.(*lang.HoverData)
	if !ok || hd == nil {
		return
	}
	cx.L.Count("hovers", 1)
	add := func(clause, detail string) {
		v := witness(cx, "sweep", q)
		v.Clause = clause
		v.Site = "hover" + nodeClass(cx, q)
		v.Detail = fmt.Sprintf("%s: %s\nfile:\n%s", q, detail, cx.Case.Text)
		cx.C.Add(v)
	}
	if r.Err != nil {
		add("hover:value-and-error", fmt.Sprintf("both data and error %v", r.Err))
	}
	if hd.Content.Value == "" {
		add("hover:empty-content", fmt.Sprintf("empty content with range %s", fmtRange(hd.Range)))
	}
	if hd.Range.Filename != q.File {
		add("hover:wrong-file", fmtRange(hd.Range))
	} else if p := rangeProblem(cx.W, "/p0", hd.Range); p != "" {
		add("hover:range:"+p, fmtRange(hd.Range))
	} else if hd.Range.Start.Byte > q.Pos.Byte || hd.Range.End.Byte < q.Pos.Byte {
		add("hover:range-excludes-cursor", fmt.Sprintf("range %s, cursor at byte %d, content %q", fmtRange(hd.Range), q.Pos.Byte, trunc(hd.Content.Value, 80)))
	}
	cx.L.Count("nontrivial", 1)
	h, _ := run.Hash(r)
	cx.L.OutcomeHash(h)
	if cx.L.Counters["nontrivial"]%100000 == 1 {
		cx.C.Sample(map[string]any{"schema": cx.Case.Entry.ID, "file": cx.Case.Text, "query": q.String(), "content": trunc(hd.Content.Value, 120), "range": fmtRange(hd.Range)})
	}
}

// ---- C13 (structural part) -------------------------------------------------------------------

func c13Structural(cx *explore.Ctx, q run.Query, r run.Result) {
	if r.Panic != nil {
		return
	}
	toks, ok := r.Val.([]lang.SemanticToken)
	if !ok {
		return
	}
	add := func(clause, detail string) {
		v := witness(cx, "sweep", q)
		v.Clause = clause
		v.Site = "semtok"
		if i := strings.Index(detail, "hcl-"); clause == "token:empty" && i >= 0 {
			// empty tokens are identified by their type (different producers)
			v.Site += ":" + strings.Fields(detail[i:])[0]
		}
		v.Detail = fmt.Sprintf("%s: %s\nfile:\n%s", q, detail, cx.Case.Text)
		cx.C.Add(v)
	}
	supported := map[lang.SemanticTokenType]bool{}
	for _, t := range lang.SupportedSemanticTokenTypes {
		supported[t] = true
	}
	for i, t := range toks {
		cx.L.Count("tokens", 1)
		if !supported[t.Type] {
			add("token:unadvertised-type", fmt.Sprintf("token %d type %q", i, t.Type))
		}
		if t.Range.Filename != q.File {
			add("token:wrong-file", fmtRange(t.Range))
			continue
		}
		if p := rangeProblem(cx.W, "/p0", t.Range); p != "" {
			add("token:range:"+p, fmt.Sprintf("token %d %s %s", i, t.Type, fmtRange(t.Range)))
			continue
		}
		if t.Range.Start.Byte >= t.Range.End.Byte {
			add("token:empty", fmt.Sprintf("token %d %s %s", i, t.Type, fmtRange(t.Range)))
		}
		if i > 0 {
			p := toks[i-1]
			if p.Range.Start.Byte > t.Range.Start.Byte {
				add("token:unsorted", fmt.Sprintf("token %d %s starts before token %d %s", i, fmtRange(t.Range), i-1, fmtRange(p.Range)))
			} else if p.Range.End.Byte > t.Range.Start.Byte {
				add("token:overlap", fmt.Sprintf("token %d %s %s overlaps token %d %s %s", i-1, p.Type, fmtRange(p.Range), i, t.Type, fmtRange(t.Range)))
			}
		}
	}
	// exactness on files the generator fully understands (no parse errors)
	if f := cx.W.Ctx(0).Files[q.File]; f != nil {
		if body, ok := f.Body.(*hclsyntax.Body); ok {
			if _, pd := hclsyntax.ParseConfig(cx.Src, q.File, hcl.InitialPos); !pd.HasErrors() {
				c13Exact(cx, q, toks, body)
			}
		}
	}
	if len(toks) > 0 {
		cx.L.Count("nontrivial", 1)
		h, _ := run.Hash(r)
		cx.L.OutcomeHash(h)
		if cx.L.Counters["nontrivial"]%20000 == 1 {
			cx.C.Sample(map[string]any{"schema": cx.Case.Entry.ID, "file": cx.Case.Text, "tokens": len(toks), "first": string(toks[0].Type) + " " + fmtRange(toks[0].Range)})
		}
	}
}

// ---- C20 (safety part) -----------------------------------------------------------------------

func c20Safety(cx *explore.Ctx, q run.Query, r run.Result) {
	if r.Panic != nil {
		return
	}
	sig, ok := r.Val.(*lang.FunctionSignature)
	if !ok || sig == nil {
		return
	}
	cx.L.Count("signatures", 1)
	add := func(clause, detail string) {
		v := witness(cx, "sweep", q)
		v.Clause = clause
		v.Site = "signature"
		v.Detail = fmt.Sprintf("%s: %s\nfile:\n%s", q, detail, cx.Case.Text)
		cx.C.Add(v)
	}
	name := sig.Name
	if i := strings.Index(name, "("); i >= 0 {
		name = name[:i]
	}
	fns := gen.Functions()
	f, known := fns[name]
	if !known {
		add("signature:unknown-function", fmt.Sprintf("signature %q", sig.Name))
		return
	}
	want := len(f.Params)
	if f.VarParam != nil {
		want++
	}
	if len(sig.Parameters) != want {
		add("signature:parameter-list", fmt.Sprintf("signature %q has %d parameters, function has %d", sig.Name, len(sig.Parameters), want))
	}
	if int(sig.ActiveParameter) >= len(sig.Parameters) && !(sig.ActiveParameter == 0 && len(sig.Parameters) == 0) {
		add("signature:active-out-of-range", fmt.Sprintf("signature %q active=%d of %d", sig.Name, sig.ActiveParameter, len(sig.Parameters)))
	}
	// the call text must enclose the cursor: some occurrence of name( before the cursor
	// (the parser accepts blanks around the :: of a namespaced name: compared with blanks removed)
	if !strings.Contains(strings.NewReplacer(" ", "", "\t", "").Replace(string(cx.Src[:min(len(cx.Src), q.Pos.Byte+len(name)+1)])), name) {
		add("signature:no-call-at-cursor", fmt.Sprintf("signature %q but no call text before cursor", sig.Name))
	}
	cx.L.Count("nontrivial", 1)
	h, _ := run.Hash(r)
	cx.L.OutcomeHash(h)
}

func min(a, b int) int {
	if a < b {
		return a
	}
	return b
}
