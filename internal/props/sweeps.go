package props

import (
	"time"

	"verif/internal/explore"
	"verif/internal/report"
	"verif/internal/run"
)

// sweepCheck runs the E1 product with one oracle plug-in restricted to the given kinds.
func sweepCheck(prop, tier string, kinds []run.Kind, co explore.CaseOpts, onResult func(cx *explore.Ctx, q run.Query, r run.Result), fo report.FinishOpts, extra func(c *report.Collector)) int {
	c := report.NewCollector(prop)
	co.Tier = tier
	explore.SweepGroups(explore.Groups(co), c, explore.Deadline(tier), explore.Opts{Kinds: kinds, OnResult: onResult})
	if extra != nil {
		extra(c)
	}
	fo.Tier = tier
	fo.EvalCounter = "calls"
	return c.Finish(fo)
}

func timeUp(deadline time.Time) bool { return time.Now().After(deadline) }
