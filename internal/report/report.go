// Package report collects violations by signature, matches them against the committed
// known-findings file, writes replay artefacts and the evidence file.
package report

import (
	"sync/atomic"
	"encoding/json"
	"fmt"
	"hash/fnv"
	"os"
	"path/filepath"
	"sort"
	"strings"
	"sync"
	"time"
)

// Root is the /verif directory (overridable for tests).
var Root = func() string {
	if r := os.Getenv("VERIF_ROOT"); r != "" {
		return r
	}
	return "/verif"
}()

// FileSpec / ReplaySpec make a replay self-contained: catalogue id + the exact file texts.
type FileSpec struct {
	Path string `json:"path"`
	Name string `json:"name"`
	Text string `json:"text"`
}

// Violation is one failing case.
type Violation struct {
	Property string `json:"property"`
	// Clause is the violated sub-assertion, e.g. panic:slice-bounds, range:start>end
	Clause string `json:"clause"`
	// Site: innermost hcl-lang function for panics, otherwise entry point + node/constraint class
	Site string `json:"site"`
	// Detail: human-readable expected-vs-observed
	Detail string `json:"detail"`
	// Replay data
	Check    string          `json:"check"` // sub-check name the replayer dispatches on
	SchemaID string          `json:"schema_id,omitempty"`
	Files    []FileSpec      `json:"files,omitempty"`
	Query    json.RawMessage `json:"query,omitempty"`
	Extra    json.RawMessage `json:"extra,omitempty"`
}

// Sig identifies what fails (not one input).
func (v *Violation) Sig() string { return v.Property + "|" + v.Clause + "|" + v.Site }

type group struct {
	first []*Violation
	count int
}

// Collector accumulates violations and counters; safe for concurrent use.
type Collector struct {
	Property string
	mu       sync.Mutex
	groups   map[string]*group
	counters map[string]int64
	hashes   map[uint64]struct{}
	samples  []any
	start    time.Time
	notes    []string
	inexh    []string
}

func NewCollector(prop string) *Collector {
	return &Collector{Property: prop, groups: map[string]*group{}, counters: map[string]int64{}, hashes: map[uint64]struct{}{}, start: time.Now()}
}

// Add records a violation (first 3 per signature are kept in full).
func (c *Collector) Add(v *Violation) {
	v.Property = c.Property
	c.mu.Lock()
	defer c.mu.Unlock()
	g := c.groups[v.Sig()]
	if g == nil {
		g = &group{}
		c.groups[v.Sig()] = g
	}
	g.count++
	if len(g.first) < 3 {
		g.first = append(g.first, v)
	} else if len(v.Detail)+filesLen(v.Files) < len(g.first[0].Detail)+filesLen(g.first[0].Files) {
		// keep the smallest witness first
		g.first[0] = v
	}
}

func filesLen(fs []FileSpec) int {
	n := 0
	for _, f := range fs {
		n += len(f.Text)
	}
	return n
}

// Count adds n to a named counter.
func (c *Collector) Count(name string, n int64) {
	c.mu.Lock()
	c.counters[name] += n
	c.mu.Unlock()
}

// Local is a per-worker buffer of counters and outcome hashes, merged at the end (avoids lock
// contention in hot loops).
type Local struct {
	Counters map[string]int64
	Hashes   map[uint64]struct{}
	// Prog, when set by the scheduler of the work items, is advanced on every Count: the watchdog's
	// notion of progress is "some counter moved", not "a whole work item finished".
	Prog *int64
	// Doing describes what the worker is busy with (for the watchdog's report).
	Doing atomic.Value
}

func NewLocal() *Local { return &Local{Counters: map[string]int64{}, Hashes: map[uint64]struct{}{}} }

func (l *Local) Count(name string, n int64) {
	l.Counters[name] += n
	if l.Prog != nil {
		atomic.AddInt64(l.Prog, 1)
	}
}

// OutcomeHash records a non-trivial outcome by a precomputed hash.
func (l *Local) OutcomeHash(h uint64) { l.Hashes[h] = struct{}{} }

// Outcome records a non-trivial outcome by hash (distinct_nontrivial is the size of the union).
func (l *Local) Outcome(s string) {
	h := fnv.New64a()
	h.Write([]byte(s))
	l.Hashes[h.Sum64()] = struct{}{}
}

func (c *Collector) Merge(l *Local) {
	c.mu.Lock()
	for k, v := range l.Counters {
		c.counters[k] += v
	}
	for h := range l.Hashes {
		c.hashes[h] = struct{}{}
	}
	c.mu.Unlock()
}

func (c *Collector) Sample(s any) {
	c.mu.Lock()
	if len(c.samples) < 5 {
		c.samples = append(c.samples, s)
	}
	c.mu.Unlock()
}

func (c *Collector) Note(s string) {
	c.mu.Lock()
	c.notes = append(c.notes, s)
	c.mu.Unlock()
}

// Inexhaustive marks the run as not exhaustive, with a reason.
func (c *Collector) Inexhaustive(reason string) {
	c.mu.Lock()
	defer c.mu.Unlock()
	for _, r := range c.inexh {
		if r == reason {
			return
		}
	}
	c.inexh = append(c.inexh, reason)
}

func (c *Collector) Counter(name string) int64 {
	c.mu.Lock()
	defer c.mu.Unlock()
	return c.counters[name]
}

// Partial is the serialised state of a shard's collector.
type Partial struct {
	Groups   map[string][]*Violation `json:"groups"`
	Counts   map[string]int          `json:"counts"`
	Counters map[string]int64        `json:"counters"`
	Hashes   []uint64                `json:"hashes"`
	Samples  []any                   `json:"samples"`
	Notes    []string                `json:"notes"`
	Inexh    []string                `json:"inexh"`
}

// ExportPartial writes the collector's state for the parent process to merge.
func (c *Collector) ExportPartial(path string) error {
	c.mu.Lock()
	defer c.mu.Unlock()
	p := Partial{Groups: map[string][]*Violation{}, Counts: map[string]int{}, Counters: c.counters, Samples: c.samples, Notes: c.notes, Inexh: c.inexh}
	for s, g := range c.groups {
		p.Groups[s] = g.first
		p.Counts[s] = g.count
	}
	for h := range c.hashes {
		p.Hashes = append(p.Hashes, h)
	}
	b, err := json.Marshal(p)
	if err != nil {
		return err
	}
	return os.WriteFile(path, b, 0o644)
}

// ImportPartial merges a shard's state.
func (c *Collector) ImportPartial(path string) error {
	b, err := os.ReadFile(path)
	if err != nil {
		return err
	}
	var p Partial
	if err := json.Unmarshal(b, &p); err != nil {
		return err
	}
	c.mu.Lock()
	defer c.mu.Unlock()
	for s, vs := range p.Groups {
		g := c.groups[s]
		if g == nil {
			g = &group{}
			c.groups[s] = g
		}
		g.count += p.Counts[s]
		for _, v := range vs {
			if len(g.first) < 3 {
				g.first = append(g.first, v)
			}
		}
	}
	for k, v := range p.Counters {
		c.counters[k] += v
	}
	for _, h := range p.Hashes {
		c.hashes[h] = struct{}{}
	}
	for _, s := range p.Samples {
		if len(c.samples) < 5 {
			c.samples = append(c.samples, s)
		}
	}
	c.notes = append(c.notes, p.Notes...)
	for _, r := range p.Inexh {
		dup := false
		for _, x := range c.inexh {
			if x == r {
				dup = true
			}
		}
		if !dup {
			c.inexh = append(c.inexh, r)
		}
	}
	return nil
}

// KnownFinding is one entry of /verif/known_findings.json.
type KnownFinding struct {
	Property string `json:"property"`
	Sig      string `json:"sig"`    // exact signature, or prefix ending in '*'
	Status   string `json:"status"` // "open" or "fixed"
	Commit   string `json:"commit,omitempty"`
	What     string `json:"what"`
}

func loadKnown() []KnownFinding {
	b, err := os.ReadFile(filepath.Join(Root, "known_findings.json"))
	if err != nil {
		return nil
	}
	var f struct {
		Findings []KnownFinding `json:"findings"`
	}
	if json.Unmarshal(b, &f) != nil {
		return nil
	}
	return f.Findings
}

func matchKnown(kf []KnownFinding, sig string) *KnownFinding {
	for i := range kf {
		k := &kf[i]
		if k.Status != "open" {
			continue // a fixed entry suppresses nothing
		}
		if k.Sig == sig || (strings.HasSuffix(k.Sig, "*") && strings.HasPrefix(sig, strings.TrimSuffix(k.Sig, "*"))) {
			return k
		}
	}
	return nil
}

// Evidence mirrors EVIDENCE.schema.json.
type Evidence struct {
	PropertyID  string         `json:"property_id"`
	Tier        string         `json:"tier"`
	Seed        int            `json:"seed"`
	Level       string         `json:"level"`
	Coverage    map[string]any `json:"coverage"`
	Assumptions []string       `json:"assumptions"`
	WallS       float64        `json:"wall_s"`
	Violations  int            `json:"violations"`
	Known       []string       `json:"known_findings_met,omitempty"`
}

// FinishOpts describes the run for the evidence file.
type FinishOpts struct {
	Tier        string
	Level       string
	Rule        string
	Assumptions []string
	// EvalCounter names the counter that holds the number of evaluations.
	EvalCounter string
	// BiteCounters: counters that must be > 0 for the run to mean anything (vacuity guard).
	BiteCounters []string
	Extra        map[string]any
}

// Finish prints KNOWN-FINDING / VIOLATION lines, writes replays and evidence, and returns the
// process exit code (0 held, 1 violation, 2 harness error).
func (c *Collector) Finish(o FinishOpts) int {
	c.mu.Lock()
	defer c.mu.Unlock()
	kf := loadKnown()
	sigs := make([]string, 0, len(c.groups))
	for s := range c.groups {
		sigs = append(sigs, s)
	}
	sort.Strings(sigs)
	exit := 0
	var knownMet []string
	nviol := 0
	_ = os.MkdirAll(filepath.Join(Root, "replays"), 0o755)
	if old, _ := filepath.Glob(filepath.Join(Root, "replays", c.Property+"-*.json")); old != nil {
		for _, f := range old {
			_ = os.Remove(f)
		}
	}
	for _, s := range sigs {
		g := c.groups[s]
		if k := matchKnown(kf, s); k != nil {
			fmt.Printf("KNOWN-FINDING: property=%s %s [%s] (%d cases)\n", c.Property, k.What, s, g.count)
			knownMet = append(knownMet, s)
			continue
		}
		nviol++
		h := fnv.New32a()
		h.Write([]byte(s))
		p := filepath.Join(Root, "replays", fmt.Sprintf("%s-%08x.json", c.Property, h.Sum32()))
		b, _ := json.MarshalIndent(map[string]any{"signature": s, "cases": g.count, "witnesses": g.first}, "", " ")
		_ = os.WriteFile(p, b, 0o644)
		fmt.Printf("VIOLATION property=%s replay=%s\n", c.Property, p)
		fmt.Printf("  signature: %s (%d cases)\n  detail: %s\n", s, g.count, trunc(g.first[0].Detail, 600))
		exit = 1
	}
	seed := 0
	fmt.Sscanf(os.Getenv("VERIF_SEED"), "%d", &seed)
	cov := map[string]any{}
	for k, v := range c.counters {
		cov[k] = v
	}
	cov["evaluations"] = c.counters[o.EvalCounter]
	cov["distinct_nontrivial"] = len(c.hashes)
	cov["rule"] = o.Rule
	samples := c.samples
	if len(samples) == 0 {
		samples = []any{"(no sample recorded)"}
	}
	cov["samples"] = samples
	cov["exhaustive"] = len(c.inexh) == 0
	if len(c.inexh) > 0 {
		cov["not_exhaustive_because"] = c.inexh
	}
	if len(c.notes) > 0 {
		cov["notes"] = c.notes
	}
	for k, v := range o.Extra {
		cov[k] = v
	}
	ev := Evidence{
		PropertyID: c.Property, Tier: o.Tier, Seed: seed, Level: o.Level, Coverage: cov,
		Assumptions: o.Assumptions, WallS: time.Since(c.start).Seconds(), Violations: nviol, Known: knownMet,
	}
	if ev.Assumptions == nil {
		ev.Assumptions = []string{}
	}
	_ = os.MkdirAll(filepath.Join(Root, "evidence"), 0o755)
	b, _ := json.MarshalIndent(ev, "", " ")
	if err := os.WriteFile(filepath.Join(Root, "evidence", c.Property+".json"), b, 0o644); err != nil {
		fmt.Fprintln(os.Stderr, "cannot write evidence:", err)
		return 2
	}
	// vacuity guard
	for _, bc := range o.BiteCounters {
		if c.counters[bc] == 0 {
			fmt.Fprintf(os.Stderr, "HARNESS ERROR: bite counter %q is 0 - the oracle never looked at anything\n", bc)
			if exit == 0 {
				exit = 2
			}
		}
	}
	fmt.Printf("%s %s: evaluations=%d distinct_nontrivial=%d violations=%d known=%d exhaustive=%v wall=%.1fs\n",
		c.Property, o.Tier, c.counters[o.EvalCounter], len(c.hashes), nviol, len(knownMet), len(c.inexh) == 0, ev.WallS)
	return exit
}

func trunc(s string, n int) string {
	if len(s) > n {
		return s[:n] + "…"
	}
	return s
}

// J marshals v to a RawMessage (errors yield null).
func J(v any) json.RawMessage {
	b, err := json.Marshal(v)
	if err != nil {
		return json.RawMessage("null")
	}
	return b
}
