package run

import (
	"fmt"
	"reflect"
	"sort"
	"strings"
	"unsafe"

	"github.com/hashicorp/hcl/v2"
	"github.com/zclconf/go-cty/cty"
)

var (
	tRange = reflect.TypeOf(hcl.Range{})
	tPos   = reflect.TypeOf(hcl.Pos{})
	tType  = reflect.TypeOf(cty.Type{})
	tValue = reflect.TypeOf(cty.Value{})
	tDiag  = reflect.TypeOf(hcl.Diagnostic{})
	tDiags = reflect.TypeOf(hcl.Diagnostics{})
	tError = reflect.TypeOf((*error)(nil)).Elem()
)

// CanonOpts tunes the canonical form.
type CanonOpts struct {
	// Shift, if set, maps every position (used by C18 to un-shift results).
	Shift func(file string, p hcl.Pos) hcl.Pos
	// NoRanges drops ranges altogether (C19 projections).
	NoRanges bool
}

// Canon renders v (any result value) in a canonical, pointer-free textual form. Unexported
// fields are included. Maps are rendered in sorted key order; hcl.Diagnostics as a sorted
// multiset (the property treats diagnostics as an unordered collection); everything else
// order-sensitive.
func Canon(v any) string { return CanonWith(v, CanonOpts{}) }

func CanonWith(v any, o CanonOpts) string {
	var sb strings.Builder
	c := &canon{o: o, seen: map[uintptr]int{}}
	c.val(&sb, reflect.ValueOf(v), 0)
	return sb.String()
}

// CanonResult renders a whole Result (value, error string, panic signature).
func CanonResult(r Result) string {
	if r.Panic != nil {
		return "PANIC " + r.Panic.Sig()
	}
	s := Canon(r.Val)
	if r.Err != nil {
		s += " ERR:" + fmt.Sprintf("%T", r.Err)
	}
	return s
}

type canon struct {
	o    CanonOpts
	seen map[uintptr]int
}

func (c *canon) rng(sb *strings.Builder, r hcl.Range) {
	if c.o.NoRanges {
		sb.WriteString("R")
		return
	}
	s, e := r.Start, r.End
	if c.o.Shift != nil {
		s, e = c.o.Shift(r.Filename, s), c.o.Shift(r.Filename, e)
	}
	fmt.Fprintf(sb, "%s:%d,%d,%d-%d,%d,%d", r.Filename, s.Line, s.Column, s.Byte, e.Line, e.Column, e.Byte)
}

func access(v reflect.Value) reflect.Value {
	if v.CanInterface() {
		return v
	}
	if v.CanAddr() {
		return reflect.NewAt(v.Type(), unsafe.Pointer(v.UnsafeAddr())).Elem()
	}
	return v
}

func (c *canon) val(sb *strings.Builder, v reflect.Value, depth int) {
	if !v.IsValid() {
		sb.WriteString("nil")
		return
	}
	if depth > 40 {
		sb.WriteString("<deep>")
		return
	}
	t := v.Type()
	if !v.CanAddr() && v.CanInterface() && (v.Kind() == reflect.Struct || v.Kind() == reflect.Array) {
		// make the value addressable so that unexported fields can be read
		nv := reflect.New(t).Elem()
		nv.Set(v)
		v = nv
	}
	switch t {
	case tRange:
		v = access(v)
		if v.CanInterface() {
			c.rng(sb, v.Interface().(hcl.Range))
			return
		}
	case tPos:
		v = access(v)
		if v.CanInterface() {
			p := v.Interface().(hcl.Pos)
			fmt.Fprintf(sb, "%d,%d,%d", p.Line, p.Column, p.Byte)
			return
		}
	case tType:
		v = access(v)
		if v.CanInterface() {
			ty := v.Interface().(cty.Type)
			if ty == cty.NilType {
				sb.WriteString("NilType")
			} else {
				sb.WriteString(ty.GoString())
			}
			return
		}
	case tValue:
		v = access(v)
		if v.CanInterface() {
			sb.WriteString(v.Interface().(cty.Value).GoString())
			return
		}
	case tDiag:
		v = access(v)
		if v.CanInterface() {
			d := v.Interface().(hcl.Diagnostic)
			c.diag(sb, &d)
			return
		}
	case tDiags:
		v = access(v)
		if v.CanInterface() {
			ds := v.Interface().(hcl.Diagnostics)
			items := make([]string, 0, len(ds))
			for _, d := range ds {
				var b strings.Builder
				c.diag(&b, d)
				items = append(items, b.String())
			}
			sort.Strings(items)
			sb.WriteString("diags[" + strings.Join(items, "; ") + "]")
			return
		}
	}
	switch v.Kind() {
	case reflect.Bool:
		fmt.Fprintf(sb, "%t", v.Bool())
	case reflect.Int, reflect.Int8, reflect.Int16, reflect.Int32, reflect.Int64:
		fmt.Fprintf(sb, "%d", v.Int())
	case reflect.Uint, reflect.Uint8, reflect.Uint16, reflect.Uint32, reflect.Uint64, reflect.Uintptr:
		fmt.Fprintf(sb, "%d", v.Uint())
	case reflect.Float32, reflect.Float64:
		fmt.Fprintf(sb, "%g", v.Float())
	case reflect.String:
		fmt.Fprintf(sb, "%q", v.String())
	case reflect.Func:
		if v.IsNil() {
			sb.WriteString("func:nil")
		} else {
			sb.WriteString("func")
		}
	case reflect.Chan, reflect.UnsafePointer:
		sb.WriteString("<" + v.Kind().String() + ">")
	case reflect.Interface:
		if v.IsNil() {
			sb.WriteString("nil")
			return
		}
		e := v.Elem()
		if e.Type().Implements(tError) && e.Kind() == reflect.Ptr {
			fmt.Fprintf(sb, "err<%s>", e.Type())
			return
		}
		sb.WriteString("<" + e.Type().String() + ">")
		c.val(sb, e, depth+1)
	case reflect.Ptr:
		if v.IsNil() {
			sb.WriteString("nil")
			return
		}
		p := v.Pointer()
		if id, ok := c.seen[p]; ok && v.Elem().Kind() == reflect.Struct && depth > 0 {
			_ = id
			// cycles are impossible in results except through shared pointers; print content anyway up to depth
		}
		c.seen[p] = len(c.seen)
		sb.WriteString("&")
		c.val(sb, v.Elem(), depth+1)
	case reflect.Struct:
		sb.WriteString(t.Name() + "{")
		for i := 0; i < v.NumField(); i++ {
			if i > 0 {
				sb.WriteString(" ")
			}
			sb.WriteString(t.Field(i).Name + ":")
			c.val(sb, access(v.Field(i)), depth+1)
		}
		sb.WriteString("}")
	case reflect.Slice:
		if v.IsNil() || v.Len() == 0 {
			// nil and empty containers are treated alike
			sb.WriteString("[]")
			return
		}
		if t.Elem().Kind() == reflect.Uint8 {
			fmt.Fprintf(sb, "bytes%q", v.Bytes())
			return
		}
		fallthrough
	case reflect.Array:
		sb.WriteString("[")
		for i := 0; i < v.Len(); i++ {
			if i > 0 {
				sb.WriteString(", ")
			}
			c.val(sb, access(v.Index(i)), depth+1)
		}
		sb.WriteString("]")
	case reflect.Map:
		if v.IsNil() || v.Len() == 0 {
			sb.WriteString("map[]")
			return
		}
		type kv struct{ k, v string }
		items := make([]kv, 0, v.Len())
		it := v.MapRange()
		for it.Next() {
			var kb, vb strings.Builder
			c.val(&kb, it.Key(), depth+1)
			c.val(&vb, it.Value(), depth+1)
			items = append(items, kv{kb.String(), vb.String()})
		}
		sort.Slice(items, func(i, j int) bool { return items[i].k < items[j].k })
		sb.WriteString("map[")
		for i, it := range items {
			if i > 0 {
				sb.WriteString(", ")
			}
			sb.WriteString(it.k + ":" + it.v)
		}
		sb.WriteString("]")
	default:
		fmt.Fprintf(sb, "<%s>", v.Kind())
	}
}

func (c *canon) diag(sb *strings.Builder, d *hcl.Diagnostic) {
	if d == nil {
		sb.WriteString("nil")
		return
	}
	fmt.Fprintf(sb, "diag{%d %q %q subj:", d.Severity, d.Summary, d.Detail)
	if d.Subject != nil {
		c.rng(sb, *d.Subject)
	} else {
		sb.WriteString("nil")
	}
	sb.WriteString(" ctx:")
	if d.Context != nil {
		c.rng(sb, *d.Context)
	} else {
		sb.WriteString("nil")
	}
	sb.WriteString("}")
}
