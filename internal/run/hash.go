package run

import (
	"github.com/hashicorp/hcl-lang/lang"
	"github.com/hashicorp/hcl/v2"
)

// hasher is an allocation-free FNV-1a accumulator.
type hasher uint64

const (
	fnvOff   = 14695981039346656037
	fnvPrime = 1099511628211
)

func (h *hasher) b(x byte) { *h = (*h ^ hasher(x)) * fnvPrime }
func (h *hasher) i(x int) {
	u := uint64(x)
	for k := 0; k < 4; k++ {
		h.b(byte(u))
		u >>= 8
	}
}
func (h *hasher) s(s string) {
	for i := 0; i < len(s); i++ {
		h.b(s[i])
	}
	h.b(0xff)
}
func (h *hasher) r(r hcl.Range) {
	h.s(r.Filename)
	h.i(r.Start.Line)
	h.i(r.Start.Column)
	h.i(r.Start.Byte)
	h.i(r.End.Line)
	h.i(r.End.Column)
	h.i(r.End.Byte)
}
func (h *hasher) bo(b bool) {
	if b {
		h.b(1)
	} else {
		h.b(0)
	}
}

// Hash is a fast canonical hash of a result: typed fast paths for the hot result types, the
// reflective canonical form for everything else. Equal canonical forms give equal hashes.
// trivial reports an empty / nil / error result.
func Hash(r Result) (sum uint64, trivial bool) {
	h := hasher(fnvOff)
	if r.Panic != nil {
		h.s("PANIC")
		h.s(r.Panic.Sig())
		return uint64(h), false
	}
	if r.Err != nil {
		h.s("ERR")
		trivial = true
	}
	switch x := r.Val.(type) {
	case lang.Candidates:
		h.s("cands")
		h.bo(x.IsComplete)
		for i := range x.List {
			c := &x.List[i]
			h.s(c.Label)
			h.s(c.Detail)
			h.s(c.Description.Value)
			h.i(int(c.Description.Kind))
			h.bo(c.IsDeprecated)
			h.i(int(c.Kind))
			h.bo(c.TriggerSuggest)
			h.r(c.TextEdit.Range)
			h.s(c.TextEdit.NewText)
			h.s(c.TextEdit.Snippet)
			h.s(c.SortText)
			if c.ResolveHook != nil {
				h.s(c.ResolveHook.Name)
				h.s(c.ResolveHook.Path)
			}
			for _, e := range c.AdditionalTextEdits {
				h.r(e.Range)
				h.s(e.NewText)
				h.s(e.Snippet)
			}
		}
		if len(x.List) == 0 {
			trivial = true
		}
	case *lang.HoverData:
		h.s("hover")
		if x == nil {
			trivial = true
		} else {
			h.s(x.Content.Value)
			h.i(int(x.Content.Kind))
			h.r(x.Range)
		}
	case []lang.SemanticToken:
		h.s("tokens")
		for i := range x {
			h.s(string(x[i].Type))
			for _, m := range x[i].Modifiers {
				h.s(string(m))
			}
			h.r(x[i].Range)
		}
		if len(x) == 0 {
			trivial = true
		}
	case *lang.FunctionSignature:
		h.s("sig")
		if x == nil {
			trivial = true
		} else {
			h.s(x.Name)
			h.s(x.Description.Value)
			h.i(int(x.ActiveParameter))
			for _, p := range x.Parameters {
				h.s(p.Name)
				h.s(p.Description.Value)
			}
		}
	default:
		s := Canon(r.Val)
		h.s(s)
		if len(s) <= 12 {
			trivial = true
		}
	}
	return uint64(h), trivial
}
