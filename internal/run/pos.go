package run

import (
	"unicode/utf8"

	"github.com/apparentlymart/go-textseg/v15/textseg"
	"github.com/hashicorp/hcl/v2"
)

// PosAt is the independent position calculator: line = newlines before off + 1, column =
// grapheme clusters since the line start + 1 (the rule HCL's scanner uses). For an offset
// inside a multi-byte rune or cluster the column of the cluster's start is used.
func PosAt(src []byte, off int) hcl.Pos {
	if off < 0 {
		off = 0
	}
	if off > len(src) {
		off = len(src)
	}
	line := 1
	ls := 0
	for i := 0; i < off; i++ {
		if src[i] == '\n' {
			line++
			ls = i + 1
		}
	}
	// a byte order mark at the start of the file occupies no column (the hcl scanner skips it and
	// advances the byte offset only)
	if ls == 0 && off >= 3 && len(src) >= 3 && src[0] == 0xEF && src[1] == 0xBB && src[2] == 0xBF {
		ls = 3
	}
	col := 1
	b := src[ls:off]
	for len(b) > 0 {
		adv, _, _ := textseg.ScanGraphemeClusters(b, true)
		if adv <= 0 {
			break
		}
		if adv > len(b) {
			break
		}
		// a cluster cut by `off` (mid-rune) does not count
		if ls+adv > off {
			break
		}
		col++
		b = b[adv:]
		ls += adv
	}
	return hcl.Pos{Line: line, Column: col, Byte: off}
}

// ColumnsAgree tells whether (line, column) of p matches the calculator at p.Byte. Whole-line
// segmentation is used; a second answer (segmentation restarted at the previous token/cluster
// boundary cannot be known here) is not attempted: inputs avoid combining marks at token starts.
func ColumnsAgree(src []byte, p hcl.Pos) bool {
	q := PosAt(src, p.Byte)
	return q.Line == p.Line && q.Column == p.Column
}

// RuneBoundary tells whether off is at a rune boundary of src.
func RuneBoundary(src []byte, off int) bool {
	if off <= 0 || off >= len(src) {
		return true
	}
	return utf8.RuneStart(src[off])
}

// AllPositions returns every byte offset 0..len(src) as a position (mid-rune included if midRune).
func AllPositions(src []byte, midRune bool) []hcl.Pos {
	out := make([]hcl.Pos, 0, len(src)+1)
	line, col := 1, 1
	// incremental computation, equivalent to PosAt (checked by a self-test)
	i := 0
	if len(src) >= 3 && src[0] == 0xEF && src[1] == 0xBB && src[2] == 0xBF {
		// a byte order mark occupies no column: the position behind it is still column 1
		out = append(out, hcl.Pos{Line: 1, Column: 1, Byte: 0})
		if midRune {
			out = append(out, PosAt(src, 1), PosAt(src, 2))
		}
		i = 3
	}
	for i <= len(src) {
		out = append(out, hcl.Pos{Line: line, Column: col, Byte: i})
		if i == len(src) {
			break
		}
		if src[i] == '\n' {
			line++
			col = 1
			i++
			continue
		}
		adv, _, _ := textseg.ScanGraphemeClusters(src[i:], true)
		if adv <= 0 {
			adv = 1
		}
		// a cluster may contain a newline only as "\r\n"
		if adv == 2 && src[i] == '\r' && src[i+1] == '\n' {
			// position between \r and \n
			if midRune {
				out = append(out, hcl.Pos{Line: line, Column: col, Byte: i + 1})
			}
			line++
			col = 1
			i += 2
			continue
		}
		if midRune {
			for k := 1; k < adv; k++ {
				out = append(out, hcl.Pos{Line: line, Column: col, Byte: i + k})
			}
		}
		col++
		i += adv
	}
	return out
}
