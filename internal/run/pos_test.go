package run

import "testing"

// AllPositions is the incremental form of PosAt: they must agree at every cluster boundary (positions inside a rune or
// cluster are only used by the panic sweeps, where the column is arbitrary anyway).
func TestAllPositionsAgreesWithPosAt(t *testing.T) {
	for _, text := range []string{"", "a", "attr = f\n", "\ufeff", "\ufeff\n", "\ufeffattr = f", "\ufeffa\nb", "a\r\nb\r\n", "é = \"ü€\"\n👍🏽 x", "a\n\n\nb", "x\ufeffy"} {
		src := []byte(text)
		for _, p := range AllPositions(src, false) {
			if q := PosAt(src, p.Byte); q != p {
				t.Errorf("%q @%d: AllPositions %+v, PosAt %+v", text, p.Byte, p, q)
			}
		}
	}
}
