// Package run wraps the library's entry points: uniform calls under recover, panic
// classification, canonical result serialisation and range extraction.
package run

import (
	"context"
	"fmt"
	"runtime"
	"strings"

	"github.com/hashicorp/hcl-lang/decoder"
	"github.com/hashicorp/hcl-lang/lang"
	"github.com/hashicorp/hcl/v2"

	"verif/internal/world"
)

// Kind names one public entry point (plus variants).
type Kind string

const (
	Completion        Kind = "completion"
	CompletionPrefill Kind = "completion_prefill"
	Hover             Kind = "hover"
	Signature         Kind = "signature"
	SemTok            Kind = "semtok"
	SymbolsFile       Kind = "symbols_file"
	SymbolsWS         Kind = "symbols_ws"
	Links             Kind = "links"
	Validate          Kind = "validate"
	ValidateFile      Kind = "validate_file"
	CollectTargets    Kind = "collect_targets"
	CollectOrigins    Kind = "collect_origins"
	CollectWriteOnly  Kind = "collect_writeonly"
	GotoDef           Kind = "goto_def"
	FindRefs          Kind = "find_refs"
	CodeLens          Kind = "codelens"
)

// PosKinds are the entry points taking a cursor; FileKinds take a file; PathKinds take neither.
var PosKinds = []Kind{Completion, CompletionPrefill, Hover, Signature, GotoDef, FindRefs}
var FileKinds = []Kind{SemTok, SymbolsFile, Links, ValidateFile, CodeLens}
var PathKinds = []Kind{Validate, CollectTargets, CollectOrigins, CollectWriteOnly, SymbolsWS}

// AllKinds in a fixed order.
var AllKinds = append(append(append([]Kind{}, PosKinds...), FileKinds...), PathKinds...)

// Query is one call.
type Query struct {
	Kind  Kind    `json:"kind"`
	Path  int     `json:"path"`
	File  string  `json:"file,omitempty"`
	Pos   hcl.Pos `json:"pos"`
	Query string  `json:"query,omitempty"` // workspace symbol query
}

func (q Query) String() string {
	return fmt.Sprintf("%s path=%d file=%s pos=%d:%d@%d q=%q", q.Kind, q.Path, q.File, q.Pos.Line, q.Pos.Column, q.Pos.Byte, q.Query)
}

// PanicInfo describes a recovered panic by the innermost hcl-lang frame.
type PanicInfo struct {
	Value string `json:"value"`
	Class string `json:"class"`
	Site  string `json:"site"`
	Line  int    `json:"line"`
}

func (p *PanicInfo) Sig() string { return p.Class + "@" + p.Site }

// Result of one call.
type Result struct {
	Val   any
	Err   error
	Panic *PanicInfo
}

const repoPrefix = "github.com/hashicorp/hcl-lang/"

func classify(r any) *PanicInfo {
	msg := fmt.Sprint(r)
	class := "other"
	switch {
	case strings.Contains(msg, "slice bounds out of range"):
		class = "slice-bounds"
	case strings.Contains(msg, "index out of range"):
		class = "index-range"
	case strings.Contains(msg, "nil pointer dereference"):
		class = "nil-deref"
	case strings.Contains(msg, "nil map"):
		class = "nil-map"
	case strings.Contains(msg, "interface conversion"):
		class = "type-assert"
	case strings.Contains(msg, "value is null"), strings.Contains(msg, "not a string"), strings.Contains(msg, "unknown"), strings.Contains(msg, "marked"):
		class = "cty-misuse"
	}
	pcs := make([]uintptr, 64)
	n := runtime.Callers(3, pcs)
	frames := runtime.CallersFrames(pcs[:n])
	site, line := "?", 0
	for {
		fr, more := frames.Next()
		if strings.HasPrefix(fr.Function, repoPrefix) {
			site = strings.TrimPrefix(fr.Function, repoPrefix)
			line = fr.Line
			break
		}
		if !more {
			break
		}
	}
	if len(msg) > 200 {
		msg = msg[:200]
	}
	return &PanicInfo{Value: msg, Class: class, Site: site, Line: line}
}

// Call executes q against w under recover.
func Call(w *world.World, q Query) (res Result) {
	defer func() {
		if r := recover(); r != nil {
			res = Result{Panic: classify(r)}
		}
	}()
	ctx := context.Background()
	path := lang.Path{Path: "/nonexistent"}
	if q.Path >= 0 && q.Path < len(w.Paths) {
		path = w.Paths[q.Path]
	}
	switch q.Kind {
	case SymbolsWS:
		v, err := w.Decoder.Symbols(ctx, q.Query)
		return Result{Val: v, Err: err}
	case GotoDef:
		v, err := w.Decoder.ReferenceTargetsForOriginAtPos(path, q.File, q.Pos)
		return Result{Val: v, Err: err}
	case FindRefs:
		v := w.Decoder.ReferenceOriginsTargetingPos(path, q.File, q.Pos)
		return Result{Val: v}
	case CodeLens:
		v, err := w.Decoder.CodeLensesForFile(ctx, path, q.File)
		return Result{Val: v, Err: err}
	}
	pd, err := w.Decoder.Path(path)
	if err != nil {
		return Result{Err: err}
	}
	return CallPD(pd, q)
}

// CallPD executes a path-decoder query on an existing PathDecoder (no recover).
func CallPD(pd *decoder.PathDecoder, q Query) Result {
	ctx := context.Background()
	switch q.Kind {
	case Completion:
		pd.PrefillRequiredFields = false
		v, err := pd.CompletionAtPos(ctx, q.File, q.Pos)
		return Result{Val: v, Err: err}
	case CompletionPrefill:
		pd.PrefillRequiredFields = true
		v, err := pd.CompletionAtPos(ctx, q.File, q.Pos)
		return Result{Val: v, Err: err}
	case Hover:
		v, err := pd.HoverAtPos(ctx, q.File, q.Pos)
		return Result{Val: v, Err: err}
	case Signature:
		v, err := pd.SignatureAtPos(q.File, q.Pos)
		return Result{Val: v, Err: err}
	case SemTok:
		v, err := pd.SemanticTokensInFile(ctx, q.File)
		return Result{Val: v, Err: err}
	case SymbolsFile:
		v, err := pd.SymbolsInFile(q.File)
		return Result{Val: v, Err: err}
	case Links:
		v, err := pd.LinksInFile(q.File)
		return Result{Val: v, Err: err}
	case Validate:
		v, err := pd.Validate(ctx)
		return Result{Val: v, Err: err}
	case ValidateFile:
		v, err := pd.ValidateFile(ctx, q.File)
		return Result{Val: v, Err: err}
	case CollectTargets:
		v, err := pd.CollectReferenceTargets()
		return Result{Val: v, Err: err}
	case CollectOrigins:
		v, err := pd.CollectReferenceOrigins()
		return Result{Val: v, Err: err}
	case CollectWriteOnly:
		v, err := pd.CollectWriteOnlyAttributes()
		return Result{Val: v, Err: err}
	}
	return Result{Err: fmt.Errorf("unknown kind %q", q.Kind)}
}

// SafeCall runs f under recover and classifies a panic.
func SafeCall(f func()) (p *PanicInfo) {
	defer func() {
		if r := recover(); r != nil {
			p = classify(r)
		}
	}()
	f()
	return nil
}
