package run

import (
	"fmt"

	"github.com/hashicorp/hcl-lang/decoder"
	"github.com/hashicorp/hcl-lang/lang"
	"github.com/hashicorp/hcl-lang/reference"
	"github.com/hashicorp/hcl/v2"
)

// RangeRef is one range found in a result together with the path it is reported for.
type RangeRef struct {
	Where string
	Path  string // path whose files the range must name ("" = the queried path)
	R     hcl.Range
	// Passthrough marks ranges that the schema supplied (exempt by the property text)
	Passthrough bool
}

// Ranges extracts every hcl.Range reachable from a result value.
func Ranges(q Query, queryPath string, v any) []RangeRef {
	var out []RangeRef
	add := func(where, path string, r hcl.Range) {
		if path == "" {
			path = queryPath
		}
		out = append(out, RangeRef{Where: where, Path: path, R: r})
	}
	addp := func(where, path string, r *hcl.Range) {
		if r != nil {
			add(where, path, *r)
		}
	}
	switch x := v.(type) {
	case lang.Candidates:
		for i, c := range x.List {
			add(fmt.Sprintf("candidate[%d].TextEdit", i), "", c.TextEdit.Range)
			for j, e := range c.AdditionalTextEdits {
				add(fmt.Sprintf("candidate[%d].Additional[%d]", i, j), "", e.Range)
			}
		}
	case *lang.HoverData:
		if x != nil {
			add("hover", "", x.Range)
		}
	case []lang.SemanticToken:
		for i, t := range x {
			add(fmt.Sprintf("token[%d]", i), "", t.Range)
		}
	case []decoder.Symbol:
		var rec func(prefix string, ss []decoder.Symbol)
		rec = func(prefix string, ss []decoder.Symbol) {
			for i, s := range ss {
				if s == nil {
					continue
				}
				w := fmt.Sprintf("%s[%d:%s]", prefix, i, s.Name())
				add(w, s.Path().Path, s.Range())
				rec(w, s.NestedSymbols())
			}
		}
		rec("symbol", x)
	case []lang.Link:
		for i, l := range x {
			add(fmt.Sprintf("link[%d]", i), "", l.Range)
		}
	case lang.DiagnosticsMap:
		for f, ds := range x {
			for i, d := range ds {
				addp(fmt.Sprintf("diag[%s][%d].Subject", f, i), "", d.Subject)
				addp(fmt.Sprintf("diag[%s][%d].Context", f, i), "", d.Context)
			}
		}
	case hcl.Diagnostics:
		for i, d := range x {
			addp(fmt.Sprintf("diag[%d].Subject", i), "", d.Subject)
			addp(fmt.Sprintf("diag[%d].Context", i), "", d.Context)
		}
	case reference.Targets:
		var rec func(prefix string, ts reference.Targets)
		rec = func(prefix string, ts reference.Targets) {
			for i, t := range ts {
				w := fmt.Sprintf("%s[%d:%s]", prefix, i, t.Addr.String())
				addp(w+".Range", "", t.RangePtr)
				addp(w+".DefRange", "", t.DefRangePtr)
				addp(w+".TargetableFrom", "", t.TargetableFromRangePtr)
				rec(w, t.NestedTargets)
			}
		}
		rec("target", x)
	case reference.Origins:
		for i, o := range x {
			add(fmt.Sprintf("origin[%d]", i), "", o.OriginRange())
			if do, ok := o.(reference.DirectOrigin); ok {
				out = append(out, RangeRef{Where: fmt.Sprintf("origin[%d].TargetRange", i), Path: do.TargetPath.Path, R: do.TargetRange, Passthrough: true})
			}
		}
	case decoder.ReferenceTargets:
		for i, t := range x {
			if t == nil {
				continue
			}
			add(fmt.Sprintf("lookup[%d].OriginRange", i), "", t.OriginRange)
			// Range of a direct origin's target is schema supplied (DefRangePtr == nil there);
			// the caller decides exemption by comparing with the sentinel.
			add(fmt.Sprintf("lookup[%d].Range", i), t.Path.Path, t.Range)
			addp(fmt.Sprintf("lookup[%d].DefRange", i), t.Path.Path, t.DefRangePtr)
		}
	case decoder.ReferenceOrigins:
		for i, o := range x {
			add(fmt.Sprintf("reforigin[%d]", i), o.Path.Path, o.Range)
		}
	case decoder.WriteOnlyAttributes:
		// no ranges
	case []lang.CodeLens:
		for i, l := range x {
			add(fmt.Sprintf("codelens[%d]", i), "", l.Range)
		}
	}
	return out
}
