// Package snap computes a canonical deep hash of everything a query could have touched
// (unexported fields included, aliasing structure included, slice contents up to capacity) and
// enumerates the memory regions of the same object graph for the write barrier.
package snap

import (
	"reflect"
	"sort"
	"unsafe"
)

const (
	fnvOff   = 14695981039346656037
	fnvPrime = 1099511628211
)

// Visitor callbacks used for region registration.
type Visitor struct {
	Region func(p uintptr, size uintptr)
	Map    func(id uintptr)
}

type walker struct {
	h    uint64
	ids  map[uintptr]int // pointer identity -> first-visit ordinal (aliasing is part of the state)
	vis  *Visitor
	objs int
}

func (w *walker) b(x byte) { w.h = (w.h ^ uint64(x)) * fnvPrime }
func (w *walker) u(x uint64) {
	for i := 0; i < 8; i++ {
		w.b(byte(x))
		x >>= 8
	}
}
func (w *walker) s(s string) {
	for i := 0; i < len(s); i++ {
		w.b(s[i])
	}
	w.b(0xfe)
}

// Hash returns the deep hash of the given roots.
func Hash(roots ...any) uint64 {
	w := &walker{h: fnvOff, ids: map[uintptr]int{}}
	for _, r := range roots {
		w.val(reflect.ValueOf(r), 0)
	}
	return w.h
}

// Walk visits the object graph of roots and reports regions; returns the number of objects.
func Walk(v *Visitor, roots ...any) int {
	w := &walker{h: fnvOff, ids: map[uintptr]int{}, vis: v}
	for _, r := range roots {
		w.val(reflect.ValueOf(r), 0)
	}
	return w.objs
}

func readable(v reflect.Value) reflect.Value {
	if v.CanInterface() {
		return v
	}
	if v.CanAddr() {
		return reflect.NewAt(v.Type(), unsafe.Pointer(v.UnsafeAddr())).Elem()
	}
	return v
}

// seen registers pointer identity; returns true if it was visited before (emits a back reference).
func (w *walker) seen(p uintptr, tag byte) bool {
	if id, ok := w.ids[p]; ok {
		w.b('@')
		w.b(tag)
		w.u(uint64(id))
		return true
	}
	w.ids[p] = len(w.ids)
	return false
}

func (w *walker) val(v reflect.Value, depth int) {
	if !v.IsValid() {
		w.b('0')
		return
	}
	if depth > 10000 {
		w.b('!')
		return
	}
	switch v.Kind() {
	case reflect.Bool:
		if v.Bool() {
			w.b(1)
		} else {
			w.b(2)
		}
	case reflect.Int, reflect.Int8, reflect.Int16, reflect.Int32, reflect.Int64:
		w.u(uint64(v.Int()))
	case reflect.Uint, reflect.Uint8, reflect.Uint16, reflect.Uint32, reflect.Uint64, reflect.Uintptr:
		w.u(v.Uint())
	case reflect.Float32, reflect.Float64:
		w.u(uint64(v.Float() * 1e6))
	case reflect.Complex64, reflect.Complex128:
		w.b('c')
	case reflect.String:
		w.s(v.String())
	case reflect.Func:
		if v.IsNil() {
			w.b('f')
		} else {
			w.b('F')
		}
	case reflect.Chan, reflect.UnsafePointer:
		w.b('?')
	case reflect.Interface:
		if v.IsNil() {
			w.b('n')
			return
		}
		e := v.Elem()
		w.s(e.Type().String())
		if !e.CanAddr() && e.CanInterface() && (e.Kind() == reflect.Struct || e.Kind() == reflect.Array) {
			ne := reflect.New(e.Type()).Elem()
			ne.Set(e)
			e = ne
		}
		w.val(e, depth+1)
	case reflect.Ptr:
		if v.IsNil() {
			w.b('n')
			return
		}
		p := v.Pointer()
		if w.seen(p, 'p') {
			return
		}
		w.objs++
		if w.vis != nil && w.vis.Region != nil {
			w.vis.Region(p, v.Type().Elem().Size())
		}
		w.b('&')
		w.val(v.Elem(), depth+1)
	case reflect.Struct:
		t := v.Type()
		w.b('{')
		if !v.CanAddr() && v.CanInterface() {
			nv := reflect.New(t).Elem()
			nv.Set(v)
			v = nv
		}
		for i := 0; i < v.NumField(); i++ {
			w.val(readable(v.Field(i)), depth+1)
		}
		w.b('}')
	case reflect.Array:
		w.b('[')
		for i := 0; i < v.Len(); i++ {
			w.val(readable(v.Index(i)), depth+1)
		}
		w.b(']')
	case reflect.Slice:
		if v.IsNil() {
			w.b('n')
			return
		}
		w.u(uint64(v.Len()))
		w.u(uint64(v.Cap()))
		if v.Cap() == 0 {
			return
		}
		p := v.Pointer()
		es := v.Type().Elem().Size()
		if w.vis != nil && w.vis.Region != nil {
			w.vis.Region(p, uintptr(v.Cap())*es)
		}
		// same backing array start + same length seen before: back reference
		key := p ^ uintptr(v.Len())<<48 ^ 0x5a5a
		if w.seen(key, 's') {
			return
		}
		w.objs++
		// contents up to capacity: stale slots beyond len are constant unless someone appends
		// to a shared slice - which is exactly what must be visible
		full := v
		if v.Cap() > v.Len() {
			full = v.Slice(0, v.Cap())
		}
		if v.Type().Elem().Kind() == reflect.Uint8 {
			b := full.Bytes()
			for _, x := range b {
				w.b(x)
			}
			return
		}
		for i := 0; i < full.Len(); i++ {
			w.val(readable(full.Index(i)), depth+1)
		}
	case reflect.Map:
		if v.IsNil() {
			w.b('n')
			return
		}
		p := v.Pointer()
		if w.seen(p, 'm') {
			return
		}
		w.objs++
		if w.vis != nil && w.vis.Map != nil {
			w.vis.Map(p)
		}
		w.u(uint64(v.Len()))
		// canonical visiting order: entries sorted by the hash of their key (keys are strings or
		// other pointer-free values), values then visited with the shared identity table
		type ent struct {
			kh uint64
			v  reflect.Value
		}
		ents := make([]ent, 0, v.Len())
		it := v.MapRange()
		for it.Next() {
			kw := &walker{h: fnvOff, ids: map[uintptr]int{}}
			kw.val(mkAddr(it.Key()), depth+1)
			ents = append(ents, ent{kw.h, it.Value()})
		}
		sort.Slice(ents, func(i, j int) bool { return ents[i].kh < ents[j].kh })
		for _, e := range ents {
			w.u(e.kh)
			w.val(mkAddr(e.v), depth+1)
		}
	default:
		w.b('?')
	}
}

func mkAddr(v reflect.Value) reflect.Value {
	if v.CanAddr() || !v.CanInterface() {
		return v
	}
	if v.Kind() == reflect.Struct || v.Kind() == reflect.Array {
		nv := reflect.New(v.Type()).Elem()
		nv.Set(v)
		return nv
	}
	return v
}
