// Package world builds what a language server holds: paths with schema, parsed files,
// functions, validators and the reference targets/origins collected by the library itself.
package world

import (
	"context"
	"fmt"
	"sort"
	"strings"

	"github.com/hashicorp/hcl-lang/decoder"
	"github.com/hashicorp/hcl-lang/lang"
	"github.com/hashicorp/hcl-lang/reference"
	"github.com/hashicorp/hcl-lang/schema"
	"github.com/hashicorp/hcl-lang/validator"
	"github.com/hashicorp/hcl/v2"
	"github.com/hashicorp/hcl/v2/hclsyntax"
	"github.com/hashicorp/hcl/v2/json"
	"github.com/zclconf/go-cty/cty"
)

// FileSpec is one file of a path.
type FileSpec struct {
	Name string
	Text string
}

// PathSpec describes one path. Schema and Funcs are constructors so that every world gets
// freshly allocated, unshared values.
type PathSpec struct {
	Path   string
	LangID string
	Schema func() *schema.BodySchema
	Files  []FileSpec
	Funcs  func() map[string]schema.FunctionSignature
	// NoCollect leaves ReferenceTargets/Origins nil (a server before its first index).
	NoCollect bool
	// NoValidators leaves Validators empty.
	NoValidators bool
}

// Spec is a serialisable-by-name description of a world (SchemaID names the catalogue entry).
type Spec struct {
	SchemaID string
	Paths    []PathSpec
	// Hooks: number of candidates each registered completion hook returns (-1: no hooks registered).
	HookItems int
	// ReverseInsert builds every map by inserting keys in reversed order (C03 fresh-decoder differential).
	ReverseInsert bool
}

// Reader is the caller-supplied PathReader seam with per-path fault switches.
type Reader struct {
	Order []lang.Path
	Ctxs  map[string]*decoder.PathContext
	Fail  map[string]bool // PathContext returns an error
	Hide  map[string]bool // path missing from Paths()
}

// PK is the key a path is stored under: directory and language id together (two paths may share a directory).
func PK(p lang.Path) string { return p.Path + "\x00" + p.LanguageID }

func (r *Reader) Paths(ctx context.Context) []lang.Path {
	out := make([]lang.Path, 0, len(r.Order))
	for _, p := range r.Order {
		if r.Hide[PK(p)] {
			continue
		}
		out = append(out, p)
	}
	return out
}

func (r *Reader) PathContext(p lang.Path) (*decoder.PathContext, error) {
	if r.Fail[PK(p)] {
		return nil, fmt.Errorf("injected: path context of %q unreadable", p.Path)
	}
	c, ok := r.Ctxs[PK(p)]
	if !ok {
		return nil, fmt.Errorf("path not found: %q", p.Path)
	}
	return c, nil
}

type World struct {
	Spec    *Spec
	Reader  *Reader
	Decoder *decoder.Decoder
	DecCtx  decoder.DecoderContext
	Paths   []lang.Path
	// Texts[path][file] = file text
	Texts map[string]map[string]string
	// BuildErrs: errors returned by collection (kept for information; never a violation by itself)
	BuildErrs []string
}

// IsJSON tells whether a filename is parsed with the JSON syntax.
func IsJSON(name string) bool { return strings.HasSuffix(name, ".json") }

// ParseFile parses one file the way a language server does: diagnostics ignored.
func ParseFile(name, text string) *hcl.File {
	src := []byte(text)
	var f *hcl.File
	if IsJSON(name) {
		f, _ = json.Parse(src, name)
	} else {
		f, _ = hclsyntax.ParseConfig(src, name, hcl.InitialPos)
	}
	return f
}

func stockValidators() []validator.Validator {
	return []validator.Validator{
		validator.BlockLabelsLength{},
		validator.DeprecatedAttribute{},
		validator.DeprecatedBlock{},
		validator.MaxBlocks{},
		validator.MinBlocks{},
		validator.MissingRequiredAttribute{},
		validator.UnexpectedAttribute{},
		validator.UnexpectedBlock{},
	}
}

// HookName is the completion hook name the catalogue's schemas may refer to.
const HookName = "vhook"
const HookName2 = "vhook2"

func hookFunc(n int, tag string) decoder.CompletionFunc {
	return func(ctx context.Context, value cty.Value) ([]decoder.Candidate, error) {
		out := make([]decoder.Candidate, 0, n)
		for i := 0; i < n; i++ {
			lbl := fmt.Sprintf("%s%03d", tag, i)
			out = append(out, decoder.Candidate{
				Label:         lbl,
				Kind:          lang.StringCandidateKind,
				RawInsertText: fmt.Sprintf("%q", lbl),
			})
		}
		return out, nil
	}
}

// Build constructs a world from its spec. It never panics on a nil file (parser returned none):
// such files are simply absent, as in a server that could not read them.
func Build(spec *Spec) *World {
	w := &World{
		Spec:  spec,
		Texts: map[string]map[string]string{},
		Reader: &Reader{
			Ctxs: map[string]*decoder.PathContext{},
			Fail: map[string]bool{},
			Hide: map[string]bool{},
		},
	}
	for _, ps := range spec.Paths {
		p := lang.Path{Path: ps.Path, LanguageID: ps.LangID}
		w.Paths = append(w.Paths, p)
		w.Reader.Order = append(w.Reader.Order, p)
		pc := &decoder.PathContext{
			Files: map[string]*hcl.File{},
		}
		if ps.Schema != nil {
			pc.Schema = ps.Schema()
		}
		files := append([]FileSpec(nil), ps.Files...)
		if spec.ReverseInsert {
			for i, j := 0, len(files)-1; i < j; i, j = i+1, j-1 {
				files[i], files[j] = files[j], files[i]
			}
		}
		w.Texts[PK(p)] = map[string]string{}
		for _, fs := range files {
			f := ParseFile(fs.Name, fs.Text)
			if f == nil {
				continue
			}
			pc.Files[fs.Name] = f
			w.Texts[PK(p)][fs.Name] = fs.Text
		}
		if ps.Funcs != nil {
			pc.Functions = ps.Funcs()
		}
		if !ps.NoValidators {
			pc.Validators = stockValidators()
		}
		w.Reader.Ctxs[PK(p)] = pc
	}
	w.Decoder = decoder.NewDecoder(w.Reader)
	dc := decoder.NewDecoderContext()
	// links are decorated with these; a server always sets them
	dc.UtmSource, dc.UtmMedium, dc.UseUtmContent = "verif-ls", "verif-client", true
	if spec.HookItems >= 0 {
		dc.CompletionHooks[HookName] = hookFunc(spec.HookItems, "hk")
		dc.CompletionHooks[HookName2] = hookFunc(spec.HookItems, "hz")
	}
	w.DecCtx = dc
	w.Decoder.SetContext(dc)

	// collect-and-store, as terraform-ls does: all targets first, then all origins
	for i, ps := range spec.Paths {
		if ps.NoCollect || ps.Schema == nil {
			continue
		}
		pd, err := w.Decoder.Path(w.Paths[i])
		if err != nil {
			continue
		}
		t, err := safeTargets(pd)
		if err != nil {
			w.BuildErrs = append(w.BuildErrs, "targets:"+err.Error())
		}
		w.Reader.Ctxs[PK(w.Paths[i])].ReferenceTargets = t
	}
	for i, ps := range spec.Paths {
		if ps.NoCollect || ps.Schema == nil {
			continue
		}
		pd, err := w.Decoder.Path(w.Paths[i])
		if err != nil {
			continue
		}
		o, err := safeOrigins(pd)
		if err != nil {
			w.BuildErrs = append(w.BuildErrs, "origins:"+err.Error())
		}
		w.Reader.Ctxs[PK(w.Paths[i])].ReferenceOrigins = o
	}
	return w
}

func safeTargets(pd *decoder.PathDecoder) (t reference.Targets, err error) {
	defer func() {
		if r := recover(); r != nil {
			t, err = nil, fmt.Errorf("panic: %v", r)
		}
	}()
	return pd.CollectReferenceTargets()
}

func safeOrigins(pd *decoder.PathDecoder) (o reference.Origins, err error) {
	defer func() {
		if r := recover(); r != nil {
			o, err = nil, fmt.Errorf("panic: %v", r)
		}
	}()
	return pd.CollectReferenceOrigins()
}

// PathDecoder returns a fresh PathDecoder for path index i.
func (w *World) PathDecoder(i int) (*decoder.PathDecoder, error) {
	return w.Decoder.Path(w.Paths[i])
}

// FileNames returns the sorted file names of path i that were parsed.
func (w *World) FileNames(i int) []string {
	m := w.Texts[PK(w.Paths[i])]
	out := make([]string, 0, len(m))
	for n := range m {
		out = append(out, n)
	}
	sort.Strings(out)
	return out
}

// TextsByDir returns the files of every path whose directory is dir (paths differing only in language id share a directory).
func (w *World) TextsByDir(dir string) (map[string]string, bool) {
	var out map[string]string
	n := 0
	for _, p := range w.Paths {
		if p.Path != dir {
			continue
		}
		m := w.Texts[PK(p)]
		n++
		if n == 1 {
			out = m
			continue
		}
		if n == 2 {
			c := map[string]string{}
			for k, v := range out {
				c[k] = v
			}
			out = c
		}
		for k, v := range m {
			out[k] = v
		}
	}
	return out, n > 0
}

// Ctx returns the PathContext of path i.
func (w *World) Ctx(i int) *decoder.PathContext { return w.Reader.Ctxs[PK(w.Paths[i])] }

// Single is a convenience for one-path, one-file worlds.
func Single(id string, sch func() *schema.BodySchema, file, text string) *Spec {
	return &Spec{SchemaID: id, HookItems: -1, Paths: []PathSpec{{
		Path: "/p0", Schema: sch, Files: []FileSpec{{Name: file, Text: text}},
	}}}
}
