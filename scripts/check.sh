#!/bin/sh
# usage: scripts/check.sh <Cxx> <quick|thorough>
# Rebuilds the checker against /repo's current working tree and runs one property check.
# exit 0: property held on everything explored; exit 1: VIOLATION line(s) printed; exit 2: harness error.
cd "$(dirname "$0")/.." || exit 2
export VERIF_ROOT="$PWD"
export GOFLAGS=-mod=mod GOPROXY=off GOSUMDB=off GOTOOLCHAIN=local
export GOCACHE="${GOCACHE:-/verif/build/gocache}"  # shared build cache (content addressed, safe to share)
mkdir -p build evidence replays
PROP="$1"; TIER="${2:-${VERIF_TIER:-quick}}"
if ! go build -o build/vcheck ./cmd/vcheck 2>build/build.err; then
  echo "HARNESS ERROR: build against /repo failed" >&2
  head -30 build/build.err >&2
  exit 2
fi
case "$PROP" in
  C03|C04|C05)
    # instrumented variant: overlay generated from the current working tree of /repo
    if go build -o build/vinstr ./cmd/vinstr 2>build/vinstr.err && ./build/vinstr -repo "${VERIF_REPO:-/repo}" -out build/overlay -vrt internal/vrtsrc/vrt.go.txt >build/vinstr.out 2>&1 \
       && go build -tags verif -overlay build/overlay/overlay.json -o build/vcheck-instr ./cmd/vcheck 2>build/build-instr.err; then
      if [ "$PROP" = "C05" ]; then
        # adjunct: the same scenario bodies free-running under the race detector
        go build -race -o build/vcheck-race ./cmd/vcheck 2>build/build-race.err || rm -f build/vcheck-race
      fi
      exec ./build/vcheck-instr "$PROP" --tier "$TIER"
    fi
    echo "NOTE: instrumentation of the current tree failed; running the uninstrumented parts only" >&2
    cat build/vinstr.out build/build-instr.err 2>/dev/null | head -20 >&2
    VERIF_NO_INSTR=1 exec ./build/vcheck "$PROP" --tier "$TIER"
    ;;
esac
exec ./build/vcheck "$PROP" --tier "$TIER"
