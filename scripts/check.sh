#!/bin/sh
# usage: scripts/check.sh <Cxx> <quick|thorough>
# Rebuilds the checker against /repo's current working tree and runs one property check.
# exit 0: property held on everything explored; exit 1: VIOLATION line(s) printed; exit 2: harness error.
cd /verif || exit 2
export GOFLAGS=-mod=mod GOPROXY=off GOSUMDB=off GOTOOLCHAIN=local
export GOCACHE="${GOCACHE:-/verif/build/gocache}"
mkdir -p build evidence replays
PROP="$1"; TIER="${2:-${VERIF_TIER:-quick}}"
if ! go build -o build/vcheck ./cmd/vcheck 2>build/build.err; then
  echo "HARNESS ERROR: build against /repo failed" >&2
  head -30 build/build.err >&2
  exit 2
fi
exec ./build/vcheck "$PROP" --tier "$TIER"
