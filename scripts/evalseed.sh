#!/bin/sh
# usage: scripts/evalseed.sh <seed-id> <seed-source-dir> <property> [checks...]
# 1. confirms the seeded change in a scratch worktree (builds, suite passes, demo fails with / passes without)
# 2. applies it to /repo, runs the given checks (default: the property's own), records what each reports,
#    and undoes it straight afterwards.
# Results go to /verif/seeded/<seed-id>/{patch.diff,demo,meta.json,results.txt}
set -u
ID="$1"; SRC="$2"; PROP="$3"; shift 3
CHECKS="${*:-$PROP}"
cd "$(dirname "$0")/.." || exit 2
export GOFLAGS=-mod=mod GOPROXY=off GOSUMDB=off GOTOOLCHAIN=local
DST="seeded/$ID"
mkdir -p "$DST"
cp "$SRC"/patch.diff "$DST"/patch.diff || exit 2
for f in "$SRC"/*_test.go "$SRC"/README.md; do [ -f "$f" ] && cp "$f" "$DST"/; done
DEMO=$(ls "$DST"/*_test.go 2>/dev/null | head -1)
RES="$DST/results.txt"; : > "$RES"

# --- confirmation in a scratch worktree outside /repo and /verif
WT=/tmp/seedcheck-$ID
git -C /repo worktree remove --force "$WT" >/dev/null 2>&1
git -C /repo worktree add -q --detach "$WT" HEAD || exit 2
confirm=ok
( cd "$WT" && git apply "$OLDPWD/$DST/patch.diff" ) || { echo "patch does not apply to current HEAD" >> "$RES"; confirm=noapply; }
if [ "$confirm" = ok ]; then
  ( cd "$WT" && go build ./... ) >> "$RES" 2>&1 || confirm=nobuild
  ( cd "$WT" && go test -count=1 ./... ) > "$DST/suite_with_change.txt" 2>&1 && echo "suite with change: PASS" >> "$RES" || { echo "suite with change: FAIL" >> "$RES"; confirm=suitefails; }
  if [ -n "$DEMO" ]; then
    PKG=$(grep -m1 '^package ' "$DEMO" | awk '{print $2}')
    # where the author put the demo: the untracked test file in the author's worktree (SRC/..)
    DEMODIR=$(git -C "$SRC/.." status --short 2>/dev/null | grep '^??' | grep '_test.go' | grep -v SEED | head -1 | awk '{print $2}' | xargs -r dirname)
    [ -z "$DEMODIR" ] && case "$PKG" in
      decoder|decoder_test) DEMODIR=decoder;; schema|schema_test) DEMODIR=schema;; reference|reference_test) DEMODIR=reference;;
      lang|lang_test) DEMODIR=lang;; validator|validator_test) DEMODIR=validator;; schemahelper) DEMODIR=decoder/internal/schemahelper;; *) DEMODIR=decoder;; esac
    echo "$DEMODIR" > "$DST/demo_dir.txt"
    cp "$DEMO" "$WT/$DEMODIR/zz_seed_demo_test.go"
    RUNPAT=$(grep -o '^func Test[A-Za-z0-9_]*' "$DEMO" | sed 's/^func //' | tr '\n' '|' | sed 's/|$//')
    ( cd "$WT" && go test -count=1 ./$DEMODIR/ -run "$RUNPAT" ) > "$DST/demo_with_change.txt" 2>&1 && { echo "demo with change: PASS (expected FAIL)" >> "$RES"; confirm=demo_not_failing; } || echo "demo with change: FAIL (as expected)" >> "$RES"
    ( cd "$WT" && git apply -R "$OLDPWD/$DST/patch.diff" && go test -count=1 ./$DEMODIR/ -run "$RUNPAT" ) > "$DST/demo_without_change.txt" 2>&1 && echo "demo without change: PASS (as expected)" >> "$RES" || { echo "demo without change: FAIL (expected PASS)" >> "$RES"; confirm=demo_fails_on_original; }
  else
    echo "no demo test file" >> "$RES"; confirm=nodemo
  fi
fi
git -C /repo worktree remove --force "$WT" >/dev/null 2>&1
echo "confirmation: $confirm" >> "$RES"

# --- run the checks against /repo with the change applied, undo straight afterwards
detected=""
if [ "$confirm" = ok ]; then
  if git -C /repo apply "$PWD/$DST/patch.diff"; then
    for c in $CHECKS; do
      out=$(scripts/check.sh "$c" quick 2>&1); code=$?
      sigs=$(echo "$out" | grep "signature:" | sed 's/^ *signature: //' | cut -c1-160 | head -5 | tr '\n' ';')
      echo "check $c quick: exit=$code $sigs" >> "$RES"
      [ "$code" = 1 ] && detected="$detected $c"
    done
    git -C /repo checkout -- .
  else
    echo "patch does not apply to /repo" >> "$RES"
  fi
fi
git -C /repo status --short | grep -v '^??' >> "$RES"
echo "detected_by:$detected" >> "$RES"
python3 - "$ID" "$PROP" "$confirm" "$detected" "$CHECKS" <<'EOF'
import json, sys, os
sid, prop, confirm, detected, checks = sys.argv[1:6]
d = "seeded/" + sid
readme = open(d + "/README.md").read() if os.path.exists(d + "/README.md") else ""
meta = {"id": sid, "breaks_property": prop, "confirmation": confirm,
        "needs_to_manifest": readme[:1500],
        "what_was_run": ["scratch worktree: git apply patch.diff; go build ./...; go test -count=1 ./... (suite must pass); demo test with change (must fail) and after git apply -R (must pass)",
                         "then: git -C /repo apply patch.diff; scripts/check.sh <check> quick for: " + checks + "; git -C /repo checkout -- ."],
        "detected_by_quick_checks": detected.split()}
json.dump(meta, open(d + "/meta.json", "w"), indent=1)
EOF
cat "$RES"
