#!/bin/sh
# usage: scripts/evalseed_iso.sh <seed-id> <seed-source-dir> <property> [checks...]
# Same as evalseed.sh, but /repo itself is never touched: the change is applied to a scratch worktree
# /tmp/iso-<id>/repo and the checks are run from a scratch copy of /verif (/tmp/iso-<id>/verif) whose go.mod
# replaces the library by that worktree. Lets seeds be evaluated while a long run uses /repo.
# Both scratch trees are removed at the end.
set -u
ID="$1"; SRC="$2"; PROP="$3"; shift 3
CHECKS="${*:-$PROP}"
cd "$(dirname "$0")/.." || exit 2
VERIF="$PWD"
export GOFLAGS=-mod=mod GOPROXY=off GOSUMDB=off GOTOOLCHAIN=local
export GOCACHE="${GOCACHE:-/verif/build/gocache}"
DST="$VERIF/seeded/$ID"
mkdir -p "$DST"
cp "$SRC"/patch.diff "$DST"/patch.diff || exit 2
for f in "$SRC"/*_test.go "$SRC"/README.md; do [ -f "$f" ] && cp "$f" "$DST"/; done
DEMO=$(ls "$DST"/*_test.go 2>/dev/null | head -1)
RES="$DST/results.txt"; : > "$RES"

ISO=/tmp/iso-$ID
WT=$ISO/repo
git -C /repo worktree remove --force "$WT" >/dev/null 2>&1
rm -rf "$ISO"; mkdir -p "$ISO"
git -C /repo worktree add -q --detach "$WT" HEAD || exit 2
confirm=ok
( cd "$WT" && git apply "$DST/patch.diff" ) || { echo "patch does not apply to current HEAD" >> "$RES"; confirm=noapply; }
if [ "$confirm" = ok ]; then
  ( cd "$WT" && go build ./... ) >> "$RES" 2>&1 || confirm=nobuild
  ( cd "$WT" && go test -count=1 ./... ) > "$DST/suite_with_change.txt" 2>&1 && echo "suite with change: PASS" >> "$RES" || { echo "suite with change: FAIL" >> "$RES"; confirm=suitefails; }
  if [ -n "$DEMO" ]; then
    PKG=$(grep -m1 '^package ' "$DEMO" | awk '{print $2}')
    DEMODIR=$(git -C "$SRC/.." status --short 2>/dev/null | grep '^??' | grep '_test.go' | grep -v SEED | head -1 | awk '{print $2}' | xargs -r dirname)
    [ -z "$DEMODIR" ] && case "$PKG" in
      decoder|decoder_test) DEMODIR=decoder;; schema|schema_test) DEMODIR=schema;; reference|reference_test) DEMODIR=reference;;
      lang|lang_test) DEMODIR=lang;; validator|validator_test) DEMODIR=validator;; schemahelper) DEMODIR=decoder/internal/schemahelper;; *) DEMODIR=decoder;; esac
    echo "$DEMODIR" > "$DST/demo_dir.txt"
    cp "$DEMO" "$WT/$DEMODIR/zz_seed_demo_test.go"
    RUNPAT=$(grep -o '^func Test[A-Za-z0-9_]*' "$DEMO" | sed 's/^func //' | tr '\n' '|' | sed 's/|$//')
    ( cd "$WT" && go test -count=1 ./$DEMODIR/ -run "$RUNPAT" ) > "$DST/demo_with_change.txt" 2>&1 && { echo "demo with change: PASS (expected FAIL)" >> "$RES"; confirm=demo_not_failing; } || echo "demo with change: FAIL (as expected)" >> "$RES"
    ( cd "$WT" && git apply -R "$DST/patch.diff" && go test -count=1 ./$DEMODIR/ -run "$RUNPAT" ) > "$DST/demo_without_change.txt" 2>&1 && echo "demo without change: PASS (as expected)" >> "$RES" || { echo "demo without change: FAIL (expected PASS)" >> "$RES"; confirm=demo_fails_on_original; }
    rm -f "$WT/$DEMODIR/zz_seed_demo_test.go"
    ( cd "$WT" && git checkout -q -- . && git apply "$DST/patch.diff" )
  else
    echo "no demo test file" >> "$RES"; confirm=nodemo
  fi
fi
echo "confirmation: $confirm" >> "$RES"

detected=""
if [ "$confirm" = ok ]; then
  V=$ISO/verif
  mkdir -p "$V"
  rsync -a --exclude build --exclude .git --exclude seeded --exclude replays "$VERIF"/ "$V"/
  ( cd "$V" && go mod edit -replace github.com/hashicorp/hcl-lang="$WT" )
  for c in $CHECKS; do
    out=$(VERIF_REPO="$WT" GOCACHE="$GOCACHE" "$V"/scripts/check.sh "$c" quick 2>&1); code=$?
    sigs=$(echo "$out" | grep "signature:" | sed 's/^ *signature: //' | cut -c1-160 | head -5 | tr '\n' ';')
    echo "check $c quick: exit=$code $sigs" >> "$RES"
    [ "$code" = 1 ] && detected="$detected $c"
    [ "$code" = 2 ] && echo "$out" | head -5 >> "$RES"
  done
fi
git -C /repo worktree remove --force "$WT" >/dev/null 2>&1
rm -rf "$ISO"
echo "detected_by:$detected" >> "$RES"
python3 - "$ID" "$PROP" "$confirm" "$detected" "$CHECKS" <<'EOF'
import json, sys, os
sid, prop, confirm, detected, checks = sys.argv[1:6]
d = "seeded/" + sid
readme = open(d + "/README.md").read() if os.path.exists(d + "/README.md") else ""
meta = {"id": sid, "breaks_property": prop, "confirmation": confirm,
        "needs_to_manifest": readme[:1500],
        "what_was_run": ["scratch worktree /tmp/iso-<id>/repo: git apply patch.diff; go build ./...; go test -count=1 ./... (suite must pass); demo test with change (must fail) and after git apply -R (must pass)",
                         "then, with the change applied in that worktree and a scratch copy of /verif whose go.mod replaces the library by it: scripts/check.sh <check> quick for: " + checks + " (same effect as git -C /repo apply / checkout, without touching /repo while a long run uses it)"],
        "detected_by_quick_checks": detected.split()}
json.dump(meta, open(d + "/meta.json", "w"), indent=1)
EOF
cat "$RES"
