#!/usr/bin/env python3
"""kf.py fixed <prop> <sig> <commit>   |   kf.py open <prop> <sig> <what...>
Maintains /verif/known_findings.json by hand-run commands (never at check run time)."""
import json, sys, subprocess
p = '/verif/known_findings.json'
d = json.load(open(p))
mode, prop, sig = sys.argv[1:4]
if mode == 'fixed':
    commit = sys.argv[4]
    msg = subprocess.check_output(['git', '-C', '/repo', 'log', '-1', '--format=%s', commit]).decode().strip()
    assert msg.startswith('fix:'), msg
    what = msg[5:]
    d['findings'].append({'property': prop, 'sig': sig, 'status': 'fixed', 'commit': commit, 'what': what,
                          'line': 'fixed: property=%s %s %s' % (prop, commit, what)})
else:
    what = ' '.join(sys.argv[4:])
    d['findings'].append({'property': prop, 'sig': sig, 'status': 'open', 'what': what})
json.dump(d, open(p, 'w'), indent=1)
