#!/usr/bin/env python3
"""Regenerates /verif/MANIFEST.json from the table below (kept in one place so it stays valid)."""
import json

CLAIMED = {
 # id: (category, technique, level text, level note, design ref)
 "C01": ("exploration", "bounded-exhaustive enumeration of inputs (E1 sweep) on the real code",
         "Every catalogue schema x every file of the typing-history families (seeds, every byte prefix, single-token edits, all short token strings) x every byte offset x all 16 public entry points is executed; any panic (classified by innermost hcl-lang frame) or hang is a violation. Exhaustive inside the stated bounds, which is the right level for a totality property whose witnesses are small.",
         "Trusts: the catalogue of schemas/files in internal/gen as the bound; Go runtime panics are the only failure signal besides the 120 s no-progress watchdog.",
         "DESIGN.md §6 C01"),
 "C02": ("exploration", "bounded-exhaustive enumeration of inputs (E1 sweep) with a range walker and an independent position calculator",
         "Every range in every result of the E1 product (all entry points, rune-boundary cursors) is checked: names a file of the path it is reported for, 0<=start<=end<=len, line/column recomputed from the bytes. Exhaustive inside the stated bounds.",
         "Trusts the independent calculator (newline count + grapheme clusters via textseg); schema-supplied sentinel ranges are exempt as the property says.",
         "DESIGN.md §6 C02"),
 "C06": ("exploration", "bounded-exhaustive enumeration of inputs (E1 sweep) plus population worlds around the candidate limit",
         "Per-candidate oracle on every completion result of the E1 product with prefill off and on (edit applicability, tab-stop grammar), list length against the limit.",
         "Snippets are read the way a client reads them (a backslash escapes the next character, so an escaped backslash leaves a following dollar live); an HCL-escaped literal template marker ($${) in the plain text is text, not a tab stop. The run of tab-stop numbers is gap-free and starts at 1 (2 for label candidates); the snippet of a value candidate without tab stops inserts exactly the plain text.",
         "DESIGN.md §6 C06"),
 "C12": ("exploration", "bounded-exhaustive enumeration of inputs (E1 sweep), safety oracle on every hover result",
         "Hover at every cursor of every file: nil/error or non-empty content with a range containing the cursor in the requested file.",
         "Exactness of the content against the effective schema is checked only on generator-built files; under a TypeDeclaration constraint the description is compared with what hcl's typeexpr makes of the same sub-expression (nothing that is no type is described as one; the key of an object type item names its value's type).",
         "DESIGN.md §6 C12"),
 "C13": ("exploration", "bounded-exhaustive enumeration of inputs (E1 sweep), structural oracle on every token list",
         "Token lists of every file incl. broken ones: sorted, disjoint, non-empty, advertised types, well-formed ranges; on generator-built files exactly the schema-known names/types/labels with the modifiers of all enclosing blocks, one literal token per plain literal, reference-step tokens for exactly the collected origins that resolve (a resolved plain traversal: one token per step on the step's own extent), object key tokens on exactly the items of an object literal whose key is a declared attribute written as a name.",
         "Exactness only on generator-built files. References at places the type-directed token walk does not reach are open known findings (5 situations); a literal that conforms to the declared type is not among them.",
         "DESIGN.md §6 C13"),
 "C20": ("exploration", "bounded-exhaustive enumeration of inputs (E1 sweep) and generated call grammar",
         "Signature help at every cursor: known function, parameter list = fixed ++ variadic, active index valid.",
         "Function set is the catalogue's (0..3 fixed parameters, variadic, namespaced, parameterless, two signatures sharing one parameter table); parameter names are compared; CRLF and comments between arguments; complete calls nested in half-typed ones.",
         "DESIGN.md §6 C20"),
 "C03": ("model_checking", "deviation-bounded choice-point DFS over map-iteration orders on the instrumented real code (E3) + query-history pairs + fresh-decoder differential",
         "Every range-over-map in the library is rewritten (at check time, by overlay) into a choice point; for every world and query all choice vectors within the deviation bound are executed and the canonical result must equal the canonical-order result; histories: every query repeated after all others, all ordered pairs of representative queries vs a fresh decoder; whole sequences (both orders, prefill off and on) on ONE kept PathDecoder vs a fresh one per query; decoder rebuilt with reversed insertion order.",
         "Map iteration inside hcl/cty/stdlib is not behind the seam; permutation alphabet for n>4 keys is a stated subset.",
         "DESIGN.md §6 C03"),
 "C04": ("model_checking", "explicit-state search over query histories (E4) with a deep state hash, plus a statement-level write barrier in the instrumented build",
         "State = canonical deep hash of everything reachable from the path contexts, decoder context and package variables; every entry point at every position is a transition; successor must equal predecessor (closed 1-state graph => all histories); every executed write statement is probed against registered caller-owned memory; derived schemas are checked for container aliasing and mutation leaks.",
         "Writes inside hcl/cty/stdlib are covered by the value snapshot only; 16 append sites whose operand is a call result are not probed (they append to fresh copies).",
         "DESIGN.md §6 C04"),
 "C05": ("model_checking", "stateless exploration of thread interleavings of the real code under a hand-written cooperative scheduler (complete product grid per query pair), write barrier + shared-state hash; race detector as sampling adjunct",
         "For every pair of entry points on every collision world the complete product state space (pc1, pc2, H) at yield granularity (every function entry and write statement) is executed; invariants: no write to shared memory, shared-state hash constant at every yield of every solo run, each concurrent result equals the sequential one, nobody blocks.",
         "Memory-model-level races below yield granularity are not decidable by this family here: only the free-running race-detector adjunct (sampling) looks at them. If the library starts importing sync, barrier hits degrade to exhaustive:false.",
         "DESIGN.md §6 C05"),
 "C14": ("fault_enumeration", "bounded-exhaustive enumeration of files (AST as oracle) and of every subset of failing path readers",
         "Document symbols of every file compared one-to-one with an independent walk of the syntax tree; workspace symbols for worlds of 1..4 paths under every subset of unreadable / unlisted paths and every query substring.",
         "The hclsyntax tree is the oracle for what is written; the PathReader is ours and injects the faults.",
         "DESIGN.md §6 C14"),
 "C17": ("exploration", "reflective bounded-exhaustive enumeration of schema values by field-population pattern (E6)",
         "Every Copy() receiver type x zero / one-hot per field per menu value / all-populated, nested to depth 2 (quick) or 3 (thorough): no panic, canonical deep equality incl. unexported fields, no shared mutable container, mutation probes both ways; a field the generator cannot populate is reported; containers of 63-67 and 130 entries (block dependent bodies, body attributes and blocks, object attributes, parameters, nested targetables).",
         "Field menus are generated by kind; interface-typed fields use a registry (Constraint, Default, AddrStep).",
         "DESIGN.md §6 C17"),
 "C07": ("exploration", "bounded-exhaustive enumeration of cursors and typed prefixes in every body, compared with a reference model of the effective schema (E2 model compare)",
         "For every structure template and seed config: every prefix of every declarable name typed on a new line in every known body, every offset inside written attribute names / block types / quoted labels, prefill off and on; the candidate list must equal (labels, kinds, order) the reference model's declarable set (prefixes are matched as written: the first letters are also typed in the other case); a label candidate carries the detail / description of the body its value selects on its own; every candidate is applied, re-parsed and re-validated.",
         "Exactness only on files that parse without errors; AnyAttribute placeholder and dynamic-needs-block-types encode the library's choice where the statement is silent.",
         "DESIGN.md §6 C07"),
 "C08": ("exploration", "bounded-exhaustive enumeration of value-completion cursors (E1 sweep) with per-candidate oracles and an accept / re-collect / go-to-definition round trip",
         "Every completion candidate inside an attribute value: reference candidates name a collected declaration, start with the typed text, are visible, are not the edited attribute and (top-level positions) fit scope/type or contain a nested declaration that does; function candidates are known and convertible; keyword/boolean candidate sets are exactly the admitted ones; accepted fitting references resolve back to their declaration.",
         "The expected scope/type is known at top-level value positions and at plain operands of operators (the operator's parameter type); other nested positions get the weaker checks. Literal candidates of LiteralValue / LiteralType / TypeDeclaration constraints are accepted and re-parsed (LiteralValue: must evaluate to the value, its snippet must insert the plain text; type declarations: the name = type item only between the braces of an object type) under stated premises.",
         "DESIGN.md §6 C08"),
 "C09": ("exploration", "bounded-exhaustive enumeration of configs for every addressable schema form (E1 sweep) with forest invariants and a top-level reference model",
         "On every collected forest: nested address = parent + one step, indexes = real positions in source order, unique steps, elements inside written values, element ranges disjoint, definition range inside range; on cleanly parsing files every range is an item extent, every addressable declaration with a resolvable address has its target with the declaration's extent/header, as-reference targets are type-less, nothing is collected inside items unknown to the effective schema.",
         "Address-resolution model written from the statement (static/label/attribute-value steps); a block's targets may carry only addresses the schema gives that block; declared types (as-type-of), typed targets for attributes addressable by expression type, and the written plain-literal elements of inferred bodies are predicted; other inferred types are not.",
         "DESIGN.md §6 C09"),
 "C10": ("exploration", "bounded-exhaustive enumeration of a typed expression grammar with generator-recorded references (E2), plus soundness on the E1 sweep",
         "Every expression of the typed grammar (depth 2/3) under every admitting and non-admitting constraint in 8 body contexts: the multiset of (address, exact range) of collected local origins equals the generator's list of written references; ordering by file and position; on all sweep files each origin's text re-parses to its address and no duplicates exist.",
         "Iterator variables count as written traversals; object keys only when parenthesised; only schema-known object keys (statement silent: library's choice).",
         "DESIGN.md §6 C10"),
 "C11": ("exploration", "bounded-exhaustive enumeration: every origin x every position x every definition byte in collected multi-path worlds; full synthetic universe of declaration/origin pairs against an independent matcher",
         "Inverse (go-to-definition => find-references at every definition byte), locality of count/each/self, path of resolution, cross-path sanity of find-references, and set equality of resolutions with an independent matcher on a synthetic universe put directly into the path context; every reference a body in force declares an implied origin for has exactly one path origin per implying body, in whichever file it stands.",
         "Unconstrained origins resolve to typed declarations only (library's choice, statement silent); find-references inside one path over-approximates by design and is only required not to cross paths.",
         "DESIGN.md §6 C11"),
 "C16": ("exploration", "combinatorial bounded-exhaustive enumeration: all key sets x all listing orders; marker worlds x all selections x all written orders",
         "Key algebra over 64000 functional key sets and all their permutations (one key per set, injective); marker worlds in which every candidate dependent body carries a unique marker: validation, hover, tokens, targets, origins, completion and links must all see the body the generator selected.",
         "model.Effective must agree with the generator's ground truth (checked; disagreement is reported as a harness error).",
         "DESIGN.md §6 C16"),
 "C15": ("exploration", "bounded-exhaustive enumeration of every combination of injected violations, compared with a reference validator (E2 model compare)",
         "A reference validator written from the statement over the syntax tree gives the expected multiset of (severity, kind, item, admissible subject extent); compared with ValidateFile on every combination of injected violations at two nesting levels and on every file of the structure-template sweep (incl. broken files); Validate == union of ValidateFile.",
         "The hclsyntax tree is trusted as the account of what is written; the dynamic-block construct's shape is taken from its documentation.",
         "DESIGN.md §6 C15"),
 "C18": ("exploration", "bounded-exhaustive differential enumeration: original vs translated file, all insertion points x inserted-line menu x all queries x all cursors",
         "For every file and every insertion point before a top-level item / after the last one, every query at every cursor is asked in the original and (at the moved cursor) in the translated file; canonical results must be equal after un-shifting positions. Both worlds are fully re-collected.",
         "Premises: token sequence and parser tree of the translated file equal the original's, shifted (else the case is counted as skipped); a cursor exactly at the insertion point may match either translation.",
         "DESIGN.md §6 C18"),
 "C19": ("exploration", "bounded-exhaustive differential enumeration of abstract configurations rendered in native and JSON syntax",
         "Every abstract configuration of the generator (value forms x attribute contexts x block structures; JSON in object and array form) is rendered in both syntaxes under one schema; projections of absolute targets, of origins (with the documented weaker JSON constraints) and of the block/attribute symbol outline must be equal. The JSON renderings and their prefixes also run through the C01/C02 sweeps. Part 3: in JSON files the bytes the range of an origin written as a plain string covers, escapes resolved, spell the origin's address (ranges of interpolated traversals come from hcl itself and are only counted).",
         "Block-local targets, ranges and expression-element symbols are outside the comparison as the property says.",
         "DESIGN.md §6 C19"),
}

NOT_APPLICABLE = {
}

ALL = ["C%02d" % i for i in range(1, 21)]
PENDING_REASON = "check not built yet in this revision of /verif (planned: see DESIGN.md §6); not claimed until its check exists and passes on the unchanged tree"

checks = []
for pid in ALL:
    if pid not in CLAIMED:
        continue
    cat, tech, text, note, ref = CLAIMED[pid]
    checks.append({
        "property_id": pid,
        "quick_cmd": "scripts/check.sh %s quick" % pid,
        "thorough_cmd": "scripts/check.sh %s thorough" % pid,
        "evidence_file": "/verif/evidence/%s.json" % pid,
        "replay_cmd_template": "./build/vcheck %s --replay {path}" % pid,
        "engine": "vcheck",
        "level_claimed": {"category": cat, "text": text, "design_ref": ref},
        "level_note": note,
        "technique": tech,
    })
na = []
for pid in ALL:
    if pid in CLAIMED:
        continue
    na.append({"property_id": pid, "reason": NOT_APPLICABLE.get(pid, PENDING_REASON)})

m = {
 "version": 1,
 "setup_cmd": "sh -c 'cd /verif && export GOFLAGS=-mod=mod GOPROXY=off GOSUMDB=off GOTOOLCHAIN=local GOCACHE=/verif/build/gocache && mkdir -p build evidence replays && go build -o build/vcheck ./cmd/vcheck && go build -o build/vinstr ./cmd/vinstr && ./build/vinstr -out build/overlay && go build -tags verif -overlay build/overlay/overlay.json -o build/vcheck-instr ./cmd/vcheck && go build -race -o build/vcheck-race ./cmd/vcheck'",
 "hooks": {
  "guard": "verif",
  "enable": "no source hooks in /repo: instrumentation (map-order seam, yield points, write barrier) is generated at check time from the working tree and injected with `go build -tags verif -overlay /verif/build/overlay/overlay.json`",
  "baseline_off_cmd": "sh -c 'cd /repo && GOFLAGS=-mod=mod GOPROXY=off GOSUMDB=off GOTOOLCHAIN=local go test -vet=off -count=1 ./...'",
  "source_commits": [],
  "add_only": True
 },
 "engines": [
  {"name": "vcheck", "path": "/verif/cmd/vcheck", "serves_properties": sorted(CLAIMED.keys()),
   "kind_free_text": "hand-written bounded-exhaustive explorer in Go driving the real library functions: E1 input-product sweep, E2 model compare, E3 map-order choice-point DFS, E4 query-history BFS, E5 cooperative scheduler product-state search, E6 reflective schema-value enumerator"}
 ],
 "checks": checks,
 "not_applicable": na,
 "notes": "All checks rebuild against /repo's working tree (go.mod replace => /repo). Known findings: /verif/known_findings.json. Genuine defects found so far were repaired by fix: commits in /repo (listed there as fixed).",
}
json.dump(m, open("/verif/MANIFEST.json", "w"), indent=1)
print("claimed:", sorted(CLAIMED.keys()))
