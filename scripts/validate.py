#!/usr/bin/env python3
import json, jsonschema, glob, sys
ok = True
try:
    jsonschema.validate(json.load(open('/verif/MANIFEST.json')), json.load(open('/root/.vp/MANIFEST.schema.json')))
except Exception as e:
    ok = False; print('MANIFEST invalid:', str(e)[:500])
sch = json.load(open('/root/.vp/EVIDENCE.schema.json'))
for f in sorted(glob.glob('/verif/evidence/*.json')):
    try:
        jsonschema.validate(json.load(open(f)), sch)
    except Exception as e:
        ok = False; print(f, 'invalid:', str(e)[:500])
print('valid' if ok else 'INVALID')
sys.exit(0 if ok else 1)
